package main

// Harness primitives (vf*): intercepted by name; native bodies exist only for replay.

import (
	"fmt"

	"golang.org/x/tools/go/ssa"
)

func alphabetDomain(code int) *Domain {
	d := &Domain{isBits: true}
	set := func(lo, hi int) {
		for v := lo; v <= hi; v++ {
			d.bits[v>>6] |= 1 << (uint(v) & 63)
		}
	}
	switch code {
	case 0: // BYTES
		return nil
	case 1: // ASCII
		set(0, 0x7f)
	case 2: // TXT
		set(0x20, 0x7e)
	case 3: // LINE
		set(0x20, 0x7e)
		set('\n', '\n')
	case 4: // ASCII without CR
		set(0, 0x7f)
		d.bits[0] &^= 1 << '\r'
	case 5: // ASCII without NUL
		set(1, 0x7f)
	case 6: // LINE plus CR
		set(0x20, 0x7e)
		set('\n', '\n')
		set('\r', '\r')
	default:
		panic(engineErr{kind: "HARNESS", msg: fmt.Sprintf("unknown alphabet code %d", code)})
	}
	return d
}

func stringDomain(chars string) *Domain {
	d := &Domain{isBits: true}
	for i := 0; i < len(chars); i++ {
		v := chars[i]
		d.bits[v>>6] |= 1 << (uint(v) & 63)
	}
	return d
}

func (in *Interp) domainConstraint(v *Term, d *Domain) *Term {
	if d == nil {
		return in.tt.tT
	}
	var ors []*Term
	for lo := 0; lo < 256; {
		if !d.has(uint64(lo)) {
			lo++
			continue
		}
		hi := lo
		for hi+1 < 256 && d.has(uint64(hi+1)) {
			hi++
		}
		if lo == hi {
			ors = append(ors, in.tt.mk(&Term{op: OpEq, sort: 0, args: []*Term{v, in.tt.b8[lo]}}))
		} else {
			ors = append(ors, in.tt.mk(&Term{op: OpBAnd, sort: 0, args: []*Term{
				in.tt.mk(&Term{op: OpUle, sort: 0, args: []*Term{in.tt.b8[lo], v}}),
				in.tt.mk(&Term{op: OpUle, sort: 0, args: []*Term{v, in.tt.b8[hi]}}),
			}}))
		}
		lo = hi + 1
	}
	if len(ors) == 1 {
		return ors[0]
	}
	return in.tt.mk(&Term{op: OpBOr, sort: 0, args: ors})
}

func (in *Interp) newInput(name string, s Sort, dom *Domain, kind string) *Term {
	if _, ok := in.tt.vars[name]; ok {
		if _, seen := in.inputKinds[name]; seen {
			return in.tt.vars[name]
		}
	}
	v := in.tt.Var(name, s, dom)
	if _, seen := in.inputKinds[name]; !seen {
		in.inputKinds[name] = kind
		in.inputs = append(in.inputs, v)
		in.inputOrder = append(in.inputOrder, name)
	}
	return v
}

func vfInt(in *Interp, fn *ssa.Function, a []Value) Value {
	name := in.concreteStr(a[0], "vfInt name")
	lo := signExt(a[1].(*Term).val, 64)
	hi := signExt(a[2].(*Term).val, 64)
	if a[1].(*Term).op != OpConst || a[2].(*Term).op != OpConst || lo > hi {
		panic(engineErr{kind: "HARNESS", msg: "vfInt bounds must be concrete and ordered"})
	}
	if _, seen := in.inputKinds[name]; seen {
		return in.tt.vars[name]
	}
	v := in.newInput(name, 64, &Domain{lo: lo, hi: hi}, "int")
	// bypass simplification (which would fold these to true using the domain)
	in.addPC(in.tt.mk(&Term{op: OpSle, sort: 0, args: []*Term{in.tt.Const(64, uint64(lo)), v}}))
	in.addPC(in.tt.mk(&Term{op: OpSle, sort: 0, args: []*Term{v, in.tt.Const(64, uint64(hi))}}))
	return v
}

func vfAnyInt(in *Interp, fn *ssa.Function, a []Value) Value {
	name := in.concreteStr(a[0], "vfAnyInt name")
	return in.newInput(name, 64, nil, "int")
}

func vfRune(in *Interp, fn *ssa.Function, a []Value) Value {
	name := in.concreteStr(a[0], "vfRune name")
	return in.newInput(name, 32, nil, "int32")
}

func vfByte(in *Interp, fn *ssa.Function, a []Value) Value {
	name := in.concreteStr(a[0], "vfByte name")
	code := int(a[1].(*Term).val)
	if _, seen := in.inputKinds[name]; seen {
		return in.tt.vars[name]
	}
	d := alphabetDomain(code)
	v := in.newInput(name, 8, d, "byte")
	in.addPC(in.domainConstraint(v, d))
	return v
}

func vfBool(in *Interp, fn *ssa.Function, a []Value) Value {
	name := in.concreteStr(a[0], "vfBool name")
	return in.newInput(name, 0, nil, "bool")
}

func vfChoice(in *Interp, fn *ssa.Function, a []Value) Value {
	name := in.concreteStr(a[0], "vfChoice name")
	n := int(a[1].(*Term).val)
	if a[1].(*Term).op != OpConst {
		panic(engineErr{kind: "HARNESS", msg: "vfChoice n must be concrete"})
	}
	if v, ok := in.choiceVals[name]; ok {
		return in.intTerm(int(v))
	}
	k := in.choice(n)
	in.choiceVals[name] = int64(k)
	in.choiceOrder = append(in.choiceOrder, name)
	return in.intTerm(k)
}

func (in *Interp) symString(name string, maxLen int, d *Domain) Value {
	if bs, ok := in.strInputs[name]; ok {
		return StrV{b: bs}
	}
	L := in.choice(maxLen + 1)
	bs := make([]*Term, L)
	for i := 0; i < L; i++ {
		vn := fmt.Sprintf("%s#%d", name, i)
		v := in.tt.Var(vn, 8, d)
		in.inputs = append(in.inputs, v)
		in.addPC(in.domainConstraint(v, d))
		bs[i] = v
	}
	in.strInputs[name] = bs
	in.strOrder = append(in.strOrder, name)
	return StrV{b: bs}
}

func vfString(in *Interp, fn *ssa.Function, a []Value) Value {
	name := in.concreteStr(a[0], "vfString name")
	maxLen := int(a[1].(*Term).val)
	code := int(a[2].(*Term).val)
	return in.symString(name, maxLen, alphabetDomain(code))
}

func vfStringOf(in *Interp, fn *ssa.Function, a []Value) Value {
	name := in.concreteStr(a[0], "vfStringOf name")
	maxLen := int(a[1].(*Term).val)
	chars := in.concreteStr(a[2], "vfStringOf alphabet")
	return in.symString(name, maxLen, stringDomain(chars))
}

func vfAssume(in *Interp, fn *ssa.Function, a []Value) Value {
	in.assume(a[0].(*Term))
	return nil
}

func vfAssert(in *Interp, fn *ssa.Function, a []Value) Value {
	label := in.concreteStr(a[1], "vfAssert label")
	in.assert(a[0].(*Term), label)
	return nil
}

func vfFail(in *Interp, fn *ssa.Function, a []Value) Value {
	label := in.concreteStr(a[0], "vfFail label")
	in.assert(in.tt.tF, label)
	return nil
}

func vfReach(in *Interp, fn *ssa.Function, a []Value) Value {
	in.reached[in.concreteStr(a[0], "vfReach label")] = true
	return nil
}

func vfObserve(in *Interp, fn *ssa.Function, a []Value) Value {
	in.observes = append(in.observes, Observation{Label: in.concreteStr(a[0], "vfObserve label"), V: a[1]})
	return nil
}

func vfName(in *Interp, fn *ssa.Function, a []Value) Value {
	p := in.concreteStr(a[0], "vfName prefix")
	i := in.intOf(a[1], "vfName index")
	return in.mkStr(fmt.Sprintf("%s%d", p, i))
}

func vfAnd(in *Interp, fn *ssa.Function, a []Value) Value {
	return in.tt.And(a[0].(*Term), a[1].(*Term))
}

func vfOr(in *Interp, fn *ssa.Function, a []Value) Value {
	return in.tt.Or(a[0].(*Term), a[1].(*Term))
}

func vfNot(in *Interp, fn *ssa.Function, a []Value) Value {
	return in.tt.Not(a[0].(*Term))
}

func vfImplies(in *Interp, fn *ssa.Function, a []Value) Value {
	return in.tt.Or(in.tt.Not(a[0].(*Term)), a[1].(*Term))
}

func vfIteInt(in *Interp, fn *ssa.Function, a []Value) Value {
	return in.tt.Ite(a[0].(*Term), a[1].(*Term), a[2].(*Term))
}

func vfStrEq(in *Interp, fn *ssa.Function, a []Value) Value {
	return in.valueEq(a[0], a[1])
}

func vfConcrete(in *Interp, fn *ssa.Function, a []Value) Value {
	return in.intTerm(in.intOf(a[0], "vfConcrete"))
}

func vfThread(in *Interp, fn *ssa.Function, a []Value) Value {
	in.curThread = in.intOf(a[0], "vfThread")
	return nil
}


func vfTag(in *Interp, fn *ssa.Function, a []Value) Value {
	in.tags = append(in.tags, in.concreteStr(a[0], "vfTag label"))
	return nil
}

func vfTier(in *Interp, fn *ssa.Function, a []Value) Value {
	return in.intTerm(tierInt(in.cfg.Tier))
}

// vfPar(f1, f2, ...): the bodies are the threads of a parallel region. The engine runs them one
// after another in an order chosen by a choice fork, tagging logged events with the thread number.
func vfPar(in *Interp, fn *ssa.Function, a []Value) Value {
	fs := in.sliceElems(a[0].(SliceV))
	bodies := make([]FuncV, len(fs))
	for i, f := range fs {
		bodies[i] = f.(FuncV)
	}
	in.parRegions++ // before the bodies run: a panic inside the region is schedule-dependent too
	in.runParallel(bodies)
	return nil
}

func permutations(n int) [][]int {
	if n <= 1 {
		return [][]int{{0}}[:n]
	}
	var out [][]int
	var rec func(cur []int, used []bool)
	rec = func(cur []int, used []bool) {
		if len(cur) == n {
			out = append(out, append([]int(nil), cur...))
			return
		}
		for i := 0; i < n; i++ {
			if !used[i] {
				used[i] = true
				rec(append(cur, i), used)
				used[i] = false
			}
		}
	}
	rec(nil, make([]bool, n))
	return out
}
