package main

import (
	"encoding/json"
	"os"
	"path/filepath"
)

type PropConfig struct {
	Trace       bool                   `json:"trace"`
	Race        bool                   `json:"race"`
	Isolate     bool                   `json:"isolate"`
	Bounds      map[string]interface{} `json:"bounds"`
	Outside     []string               `json:"outside_bounds"`
	Assumptions []string               `json:"assumptions"`
}

var commonAssumptions = []string{
	"go/types + go/ssa (x/tools v0.29.0) build the SSA of /repo's current working tree faithfully",
	"gosym instruction semantics (cross-checked on every run by native replay of sampled path models: predicted == observed)",
	"library models listed under stubs_validated behave as the real functions (validated at start-up on concrete inputs)",
	"z3 answers sat/unsat correctly; unknown/timeouts/error lines make the run fail instead of pass",
	"bounded claim only: holds for every value of the symbolic inputs within 'bounds'; nothing is claimed outside",
}

func propConfig(id string) *PropConfig {
	pc := &PropConfig{Bounds: map[string]interface{}{}}
	b, err := os.ReadFile(filepath.Join(verifDir, "harness", "props.json"))
	if err == nil {
		all := map[string]*PropConfig{}
		if json.Unmarshal(b, &all) == nil && all[id] != nil {
			pc = all[id]
		}
	}
	pc.Assumptions = append(append([]string{}, commonAssumptions...), pc.Assumptions...)
	if pc.Bounds == nil {
		pc.Bounds = map[string]interface{}{}
	}
	return pc
}
