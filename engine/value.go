package main

import (
	"fmt"
	"go/types"
	"strings"

	"golang.org/x/tools/go/ssa"
)

// Value is one of:
//   *Term            integers (BV) and booleans (Bool)
//   StrV             string: concrete length, symbolic bytes
//   *StructV         struct value (immutable by convention)
//   *ArrayV          array value (immutable by convention)
//   PtrV             pointer into an Obj
//   SliceV           slice header
//   IfaceV           interface value
//   *MapV            map reference (nil pointer = nil map)
//   FuncV            function / closure value
//   TupleV           multiple results
//   *ReflV           reflect.Value model
//   *OpaqueV         opaque library object (template etc.)
type Value interface{}

type StrV struct{ b []*Term }

type StructV struct{ f []Value }

type ArrayV struct{ e []Value }

type Obj struct {
	id  int
	v   Value
	typ types.Type
	tag string
}

type PtrV struct {
	obj  *Obj
	path []int
	rep  bool // representative of a class of equal elements chosen for a symbolic index: read-only
	// fn: pointer-to-function is not supported
}

type SliceV struct {
	arr *Obj // Obj holding *ArrayV
	off int
	len int
	cap int
}

type IfaceV struct {
	t types.Type // nil = nil interface
	v Value
}

type MapV struct {
	id   int
	keys []Value
	vals []Value
	kt   types.Type
	vt   types.Type
}

type FuncV struct {
	fn  *ssa.Function
	env []Value
	// builtin / intrinsic by name (for function values referring to body-less functions)
}

type TupleV []Value

type ReflV struct {
	ptr  *PtrV // addressable location, if any
	val  Value
	typ  types.Type
	zero bool // the zero reflect.Value (Kind()==Invalid)
}

type OpaqueV struct {
	kind string
	data interface{}
}

func (p PtrV) isNil() bool { return p.obj == nil }

func ptrEq(a, b PtrV) bool {
	if a.obj != b.obj {
		return false
	}
	if a.obj == nil {
		return true
	}
	// normalise: trailing zero path components are the same address only for nested first fields;
	// Go forbids comparing pointers of different types, so compare paths exactly.
	if len(a.path) != len(b.path) {
		return false
	}
	for i := range a.path {
		if a.path[i] != b.path[i] {
			return false
		}
	}
	return true
}

func (p PtrV) sub(i int) PtrV {
	np := make([]int, len(p.path)+1)
	copy(np, p.path)
	np[len(p.path)] = i
	return PtrV{obj: p.obj, path: np}
}

func getPath(v Value, path []int) Value {
	for _, i := range path {
		switch x := v.(type) {
		case *StructV:
			v = x.f[i]
		case *ArrayV:
			v = x.e[i]
		default:
			panic(fmt.Sprintf("getPath: cannot descend into %T", v))
		}
	}
	return v
}

func setPath(v Value, path []int, nv Value) Value {
	if len(path) == 0 {
		return nv
	}
	i := path[0]
	switch x := v.(type) {
	case *StructV:
		nf := make([]Value, len(x.f))
		copy(nf, x.f)
		nf[i] = setPath(x.f[i], path[1:], nv)
		return &StructV{f: nf}
	case *ArrayV:
		ne := make([]Value, len(x.e))
		copy(ne, x.e)
		ne[i] = setPath(x.e[i], path[1:], nv)
		return &ArrayV{e: ne}
	default:
		panic(fmt.Sprintf("setPath: cannot descend into %T", v))
	}
}

func (p PtrV) load() Value        { return getPath(p.obj.v, p.path) }
func (p PtrV) store(v Value)      { p.obj.v = setPath(p.obj.v, p.path, v) }
func (p PtrV) String() string {
	if p.obj == nil {
		return "nil"
	}
	return fmt.Sprintf("&obj%d%v", p.obj.id, p.path)
}

func concreteString(s StrV) (string, bool) {
	bs := make([]byte, len(s.b))
	for i, t := range s.b {
		if t.op != OpConst {
			return "", false
		}
		bs[i] = byte(t.val)
	}
	return string(bs), true
}

func (in *Interp) mkStr(s string) StrV {
	b := make([]*Term, len(s))
	for i := 0; i < len(s); i++ {
		b[i] = in.tt.b8[s[i]]
	}
	return StrV{b: b}
}

func describeValue(v Value) string {
	switch x := v.(type) {
	case *Term:
		if x.op == OpConst {
			return fmt.Sprintf("%d", x.val)
		}
		return "<sym>"
	case StrV:
		if s, ok := concreteString(x); ok {
			return fmt.Sprintf("%q", s)
		}
		return fmt.Sprintf("<symstr len %d>", len(x.b))
	case *StructV:
		var parts []string
		for _, f := range x.f {
			parts = append(parts, describeValue(f))
		}
		return "{" + strings.Join(parts, ",") + "}"
	case PtrV:
		return x.String()
	case IfaceV:
		if x.t == nil {
			return "nil-iface"
		}
		return "iface(" + x.t.String() + ")"
	}
	return fmt.Sprintf("%T", v)
}

// ---------- type helpers

func isInterface(t types.Type) bool {
	_, ok := t.Underlying().(*types.Interface)
	return ok
}

func basicSort(b *types.Basic) (Sort, bool, bool) { // sort, signed, ok
	switch b.Kind() {
	case types.Bool, types.UntypedBool:
		return 0, false, true
	case types.Int, types.Int64, types.UntypedInt:
		return 64, true, true
	case types.Int8:
		return 8, true, true
	case types.Int16:
		return 16, true, true
	case types.Int32, types.UntypedRune:
		return 32, true, true
	case types.Uint, types.Uint64, types.Uintptr:
		return 64, false, true
	case types.Uint8:
		return 8, false, true
	case types.Uint16:
		return 16, false, true
	case types.Uint32:
		return 32, false, true
	}
	return 0, false, false
}

func (in *Interp) zero(t types.Type) Value {
	switch u := t.Underlying().(type) {
	case *types.Basic:
		if u.Info()&types.IsString != 0 {
			return StrV{}
		}
		if u.Kind() == types.UnsafePointer {
			return PtrV{}
		}
		s, _, ok := basicSort(u)
		if !ok {
			if u.Info()&types.IsFloat != 0 {
				return &OpaqueV{kind: "float", data: 0.0}
			}
			in.unsupported("zero value of basic type " + u.String())
		}
		return in.tt.Const(s, 0)
	case *types.Struct:
		f := make([]Value, u.NumFields())
		for i := range f {
			f[i] = in.zero(u.Field(i).Type())
		}
		return &StructV{f: f}
	case *types.Array:
		e := make([]Value, u.Len())
		if u.Len() > 0 {
			z := in.zero(u.Elem())
			for i := range e {
				e[i] = z
			}
		}
		return &ArrayV{e: e}
	case *types.Pointer:
		return PtrV{}
	case *types.Slice:
		return SliceV{}
	case *types.Interface:
		return IfaceV{}
	case *types.Map:
		return (*MapV)(nil)
	case *types.Signature:
		return FuncV{}
	case *types.Chan:
		return &OpaqueV{kind: "chan"}
	case *types.Tuple:
		tv := make(TupleV, u.Len())
		for i := range tv {
			tv[i] = in.zero(u.At(i).Type())
		}
		return tv
	}
	in.unsupported("zero value of type " + t.String())
	return nil
}

func (in *Interp) newObj(t types.Type, v Value, tag string) *Obj {
	in.nextObj++
	return &Obj{id: in.nextObj, v: v, typ: t, tag: tag}
}

var (
	typInt    = types.Typ[types.Int]
	typBool   = types.Typ[types.Bool]
	typString = types.Typ[types.String]
)

// lookupMethod finds the concrete method (or promotion wrapper) of dynamic type t; nil if absent.
func (in *Interp) lookupMethod(t types.Type, pkg *types.Package, name string) *ssa.Function {
	sel := in.prog.MethodSets.MethodSet(t).Lookup(pkg, name)
	if sel == nil {
		return nil
	}
	return in.prog.MethodValue(sel)
}
