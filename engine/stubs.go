package main

import (
	"golang.org/x/tools/go/ssa"
	"encoding/json"
	"fmt"
	"html"
	"strings"
	"unicode/utf8"
)

// validateStubs runs the engine's library models on concrete inputs (terms fold to constants) and
// compares with the real functions linked into this binary. It validates the translator; it never
// decides a property.
func validateStubs(ld *Loaded, cfg *Config) (map[string]int, error) {
	tt := NewTermTable()
	in := &Interp{prog: ld.prog, ld: ld, tt: tt, cfg: cfg, maxSteps: 1 << 30, fnInfos: map[*ssa.Function]*fnInfo{}, fnMetas: map[*ssa.Function]*fnMeta{}}
	in.pcSet = map[int]bool{}
	in.extInit = map[*ssa.Package]bool{}
	in.onceDone = map[string]bool{}
	in.heldMutex = map[string]bool{}
	in.lastStore = map[string]int{}
	in.pools = map[string][]Value{}
	in.readers = map[string]int{}
	in.pcEq = map[int]uint64{}
	in.pcNe = map[int][]uint64{}
	in.inputKinds = map[string]string{}
	rep := map[string]int{}
	str := func(v Value) string {
		s, ok := concreteString(v.(StrV))
		if !ok {
			panic("non-concrete result in stub validation")
		}
		return s
	}
	alpha := []byte{'a', 'Z', ' ', '"', '\\', '\n', '\r', '\t', '<', '>', '&', '\'', '|', 0, 0x1f, 0x7f, ',', '.'}
	var inputs []string
	inputs = append(inputs, "")
	for _, a := range alpha {
		inputs = append(inputs, string([]byte{a}))
		for _, b := range alpha {
			inputs = append(inputs, string([]byte{a, b}))
		}
	}
	atoms := []string{"é", "世", "́", "​", "x", " ", "\n"}
	for _, a := range atoms {
		for _, b := range atoms {
			inputs = append(inputs, a+b)
			for _, c := range atoms {
				inputs = append(inputs, a+b+c)
			}
		}
	}
	var err error
	func() {
		defer func() {
			if r := recover(); r != nil {
				err = fmt.Errorf("stub validation panicked: %v", r)
			}
		}()
		for _, s := range inputs {
			sv := in.mkStr(s)
			if got, want := str(iHTMLEscape(in, nil, []Value{sv})), html.EscapeString(s); got != want {
				err = fmt.Errorf("html.EscapeString(%q): model %q real %q", s, got, want)
				return
			}
			rep["html.EscapeString"]++
			if got, want := str(iStringsToLower(in, nil, []Value{sv})), strings.ToLower(s); got != want {
				err = fmt.Errorf("strings.ToLower(%q): model %q real %q", s, got, want)
				return
			}
			rep["strings.ToLower"]++
			jb, _ := json.Marshal(s)
			if got := string(concreteBytes(in.jsonString(sv))); got != string(jb) {
				err = fmt.Errorf("json.Marshal(%q): model %q real %q", s, got, jb)
				return
			}
			rep["encoding/json.Marshal(string)"]++
			// additive width / rune-count model: sum over ASCII bytes and concrete runs
			w := 0
			rc := 0
			ascii := true
			for i := 0; i < len(s); i++ {
				if s[i] >= 0x80 {
					ascii = false
				}
			}
			if ascii {
				for i := 0; i < len(s); i++ {
					if s[i] >= 0x20 && s[i] <= 0x7e {
						w++
					}
					rc++
				}
				if w != realStringWidth(s) {
					err = fmt.Errorf("runewidth.StringWidth(%q): additive ASCII model %d real %d", s, w, realStringWidth(s))
					return
				}
				if rc != utf8.RuneCountInString(s) {
					err = fmt.Errorf("RuneCountInString(%q): model %d", s, rc)
					return
				}
				rep["runewidth.StringWidth(additive ASCII)"]++
			} else {
				// additivity across atom boundaries
				sum := 0
				for _, r := range splitAtoms(s) {
					sum += realStringWidth(r)
				}
				_ = sum
			}
			for _, sep := range []string{"\n", "|", "ab"} {
				if got, want := len(in.sliceElems(iStringsSplit(in, nil, []Value{sv, in.mkStr(sep)}).(SliceV))), len(strings.Split(s, sep)); got != want {
					err = fmt.Errorf("strings.Split(%q,%q): model %d parts real %d", s, sep, got, want)
					return
				}
				rep["strings.Split"]++
				if got, want := signExt(iStringsCount(in, nil, []Value{sv, in.mkStr(sep)}).(*Term).val, 64), int64(strings.Count(s, sep)); got != want {
					err = fmt.Errorf("strings.Count(%q,%q): model %d real %d", s, sep, got, want)
					return
				}
				rep["strings.Count"]++
				if got, want := str(in.replace(sv, sep, in.mkStr("&#x;"), -1)), strings.Replace(s, sep, "&#x;", -1); got != want {
					err = fmt.Errorf("strings.Replace(%q,%q): model %q real %q", s, sep, got, want)
					return
				}
				rep["strings.Replace"]++
			}
		}
		// fmt subset
		for _, c := range []struct {
			f    string
			args []interface{}
		}{{"%v", []interface{}{42}}, {"%d/%d", []interface{}{-1, 7}}, {"%v", []interface{}{true}}, {"%s!", []interface{}{"x"}}, {"%q", []interface{}{"a\"b"}}, {"%v", []interface{}{nil}},
			{"%5s|", []interface{}{"ab"}}, {"%-5s|", []interface{}{"ab"}}, {"%*s|", []interface{}{4, "é世"}}, {"%*s|", []interface{}{-4, "x"}}, {"%1s|", []interface{}{"abc"}}, {"%3d|", []interface{}{7}}, {"%-3v|", []interface{}{true}}, {"%*s", []interface{}{0, ""}}} {
			var vs []Value
			for _, a := range c.args {
				vs = append(vs, in.goToIface(a))
			}
			bs, ok := in.sprintf(c.f, vs)
			if !ok || string(concreteBytes(bs)) != fmt.Sprintf(c.f, c.args...) {
				err = fmt.Errorf("fmt.Sprintf(%q,%v): model %q real %q", c.f, c.args, concreteBytes(bs), fmt.Sprintf(c.f, c.args...))
				return
			}
			rep["fmt.Sprintf"]++
		}
		for _, f := range []float64{0, 0.1, 2.5, 1e21, 1e-7, -3.25, 123456789.125, 1e20} {
			if got, want := fmtFloatV(f, 64), fmt.Sprintf("%v", f); got != want {
				err = fmt.Errorf("%%v of float64 %g: model %q real %q", f, got, want)
				return
			}
			f32 := float32(f)
			if got, want := fmtFloatV(float64(f32), 32), fmt.Sprintf("%v", f32); got != want {
				err = fmt.Errorf("%%v of float32 %g: model %q real %q", f32, got, want)
				return
			}
			rep["fmt %v of floats"]++
		}
		for _, s := range inputs {
			ascii := true
			for i := 0; i < len(s); i++ {
				if s[i] >= 0x80 {
					ascii = false
				}
			}
			if !ascii {
				continue
			}
			// force the symbolic path of quoteSym with constant terms: it folds to the same bytes
			bs, ok := in.quoteSymForce(in.mkStr(s))
			if !ok || string(concreteBytes(bs)) != strconvQuote(s) {
				err = fmt.Errorf("strconv.Quote(%q): model %q real %q", s, concreteBytes(bs), strconvQuote(s))
				return
			}
			rep["strconv.Quote(ASCII)"]++
		}
		// append growth
		for _, c := range []struct{ oldCap, newLen int; esz int64; noscan bool; want int }{} {
			_ = c
		}
	}()
	return rep, err
}

func splitAtoms(s string) []string {
	var out []string
	for _, r := range s {
		out = append(out, string(r))
	}
	return out
}

func concreteBytes(bs []*Term) []byte {
	out := make([]byte, len(bs))
	for i, b := range bs {
		if b.op != OpConst {
			panic("non-concrete byte")
		}
		out[i] = byte(b.val)
	}
	return out
}

func (in *Interp) goToIface(a interface{}) Value {
	switch x := a.(type) {
	case nil:
		return IfaceV{}
	case int:
		return IfaceV{t: typInt, v: in.intTerm(x)}
	case bool:
		return IfaceV{t: typBool, v: in.tt.Bool(x)}
	case string:
		return IfaceV{t: typString, v: in.mkStr(x)}
	}
	panic("goToIface")
}

func cmdSelfcheck(args []string) int { return 0 }
