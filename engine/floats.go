package main

// Concrete floating point only: values are Go float64 constants carried along; nothing symbolic.

import (
	"go/token"
	"go/types"
	"strconv"

	"github.com/mattn/go-runewidth"
)

func runewidthRune(r rune) int { return runewidth.RuneWidth(r) }

func strconvFormatFloat(f float64, fmtc byte, prec, bits int) string {
	return strconv.FormatFloat(f, fmtc, prec, bits)
}

func strconvQuote(s string) string { return strconv.Quote(s) }

// fmtFloatV is fmt's %v for floats: strconv's %g with the shortest representation.
func fmtFloatV(f float64, bits int) string {
	return strconv.FormatFloat(f, 'g', -1, bits)
}

func (in *Interp) toFloat(v Value, from types.Type, to *types.Basic) Value {
	round := func(f float64) float64 {
		if to.Kind() == types.Float32 {
			return float64(float32(f))
		}
		return f
	}
	switch x := v.(type) {
	case *OpaqueV:
		if x.kind == "float" && x.data != nil {
			return &OpaqueV{kind: "float", data: round(x.data.(float64))}
		}
	case *Term:
		if x.op == OpConst {
			if fb, ok := from.(*types.Basic); ok {
				_, signed, _ := basicSort(fb)
				if signed {
					return &OpaqueV{kind: "float", data: round(float64(signExt(x.val, x.sort)))}
				}
				return &OpaqueV{kind: "float", data: round(float64(x.val))}
			}
		}
	}
	in.unsupported("conversion of a symbolic value to floating point")
	return nil
}

func (in *Interp) floatBinop(op token.Token, x *OpaqueV, b Value, xt types.Type) (Value, bool) {
	y, ok := b.(*OpaqueV)
	if !ok || x.kind != "float" || y.kind != "float" || x.data == nil || y.data == nil {
		return nil, false
	}
	f, g := x.data.(float64), y.data.(float64)
	is32 := false
	if bt, ok := xt.Underlying().(*types.Basic); ok && bt.Kind() == types.Float32 {
		is32 = true
	}
	mk := func(r float64) Value {
		if is32 {
			r = float64(float32(r))
		}
		return &OpaqueV{kind: "float", data: r}
	}
	switch op {
	case token.ADD:
		return mk(f + g), true
	case token.SUB:
		return mk(f - g), true
	case token.MUL:
		return mk(f * g), true
	case token.QUO:
		return mk(f / g), true
	case token.EQL:
		return in.tt.Bool(f == g), true
	case token.NEQ:
		return in.tt.Bool(f != g), true
	case token.LSS:
		return in.tt.Bool(f < g), true
	case token.LEQ:
		return in.tt.Bool(f <= g), true
	case token.GTR:
		return in.tt.Bool(f > g), true
	case token.GEQ:
		return in.tt.Bool(f >= g), true
	}
	return nil, false
}
