package main

import (
	"fmt"
	"go/types"
	"os"
	"os/exec"
	"path/filepath"
	"sort"
	"strings"

	"golang.org/x/tools/go/packages"
	"golang.org/x/tools/go/ssa"
	"golang.org/x/tools/go/ssa/ssautil"
)

const modulePath = "go.pennock.tech/tabular"

type Loaded struct {
	prog         *ssa.Program
	pkgs         []*packages.Package
	sizes        types.Sizes
	errorStringT types.Type
	rtypePtrT    types.Type
	repo         string
	harnessDir   string
	overlay      map[string][]byte // virtual path -> content
	harnessPkgs  map[string]*ssa.Package
	harnessFns   []*ssa.Function
	repoHead     string
	repoDirty    bool
}

func (ld *Loaded) isModulePkg(p *types.Package) bool {
	return p != nil && (p.Path() == modulePath || strings.HasPrefix(p.Path(), modulePath+"/"))
}

// harnessFiles returns the overlay for property id: every file under harnessDir/<pkgdir>/ whose name
// starts with "<id>_" or "common_", plus the runtime file instantiated per package.
func buildOverlay(repo, harnessDir, id string) (map[string][]byte, []string, error) {
	ov := map[string][]byte{}
	var pkgDirs []string
	rt, err := os.ReadFile(filepath.Join(harnessDir, "rt.go.tmpl"))
	if err != nil {
		return nil, nil, err
	}
	err = filepath.Walk(harnessDir, func(p string, info os.FileInfo, err error) error {
		if err != nil || info.IsDir() || !strings.HasSuffix(p, ".go") {
			return err
		}
		base := filepath.Base(p)
		if !(strings.HasPrefix(base, id+"_") || strings.HasPrefix(base, "common_")) {
			return nil
		}
		rel, _ := filepath.Rel(harnessDir, filepath.Dir(p))
		target := repo
		if rel != "root" {
			target = filepath.Join(repo, rel)
		}
		if strings.HasPrefix(base, "common_") {
			// only include common files of packages that have a property file
			return nil
		}
		b, err := os.ReadFile(p)
		if err != nil {
			return err
		}
		ov[filepath.Join(target, "zz_verif_"+base)] = b
		found := false
		for _, d := range pkgDirs {
			if d == target {
				found = true
			}
		}
		if !found {
			pkgDirs = append(pkgDirs, target)
			// package clause from the harness file
			pkgName := ""
			for _, line := range strings.Split(string(b), "\n") {
				if strings.HasPrefix(line, "package ") {
					pkgName = strings.Fields(line)[1]
					break
				}
			}
			ov[filepath.Join(target, "zz_verif_rt.go")] = []byte(strings.Replace(string(rt), "package PKG", "package "+pkgName, 1))
			// common files of that package dir
			ents, _ := os.ReadDir(filepath.Dir(p))
			for _, e := range ents {
				if strings.HasPrefix(e.Name(), "common_") && strings.HasSuffix(e.Name(), ".go") {
					cb, err := os.ReadFile(filepath.Join(filepath.Dir(p), e.Name()))
					if err != nil {
						return err
					}
					ov[filepath.Join(target, "zz_verif_"+e.Name())] = cb
				}
			}
		}
		return nil
	})
	sort.Strings(pkgDirs)
	return ov, pkgDirs, err
}

func Load(repo, harnessDir, id string) (*Loaded, error) {
	ov, pkgDirs, err := buildOverlay(repo, harnessDir, id)
	if err != nil {
		return nil, err
	}
	if len(pkgDirs) == 0 {
		return nil, fmt.Errorf("no harness files for %s under %s", id, harnessDir)
	}
	cfg := &packages.Config{
		Mode:    packages.LoadAllSyntax,
		Dir:     repo,
		Overlay: ov,
		Env:     append(os.Environ(), "GOFLAGS=-mod=mod", "GOPROXY=off", "GOSUMDB=off", "GOTOOLCHAIN=local"),
	}
	var patterns []string
	for _, d := range pkgDirs {
		rel, _ := filepath.Rel(repo, d)
		patterns = append(patterns, "./"+rel)
	}
	pkgs, err := packages.Load(cfg, patterns...)
	if err != nil {
		return nil, err
	}
	nerr := 0
	packages.Visit(pkgs, nil, func(p *packages.Package) {
		for _, e := range p.Errors {
			fmt.Fprintf(os.Stderr, "load error: %s: %v\n", p.PkgPath, e)
			nerr++
		}
	})
	if nerr > 0 {
		return nil, fmt.Errorf("%d package load errors", nerr)
	}
	prog, spkgs := ssautil.AllPackages(pkgs, ssa.InstantiateGenerics)
	prog.Build()
	ld := &Loaded{prog: prog, pkgs: pkgs, sizes: &types.StdSizes{WordSize: 8, MaxAlign: 8}, repo: repo, harnessDir: harnessDir, overlay: ov, harnessPkgs: map[string]*ssa.Package{}}
	if ep := prog.ImportedPackage("errors"); ep != nil {
		ld.errorStringT = ep.Pkg.Scope().Lookup("errorString").Type()
	} else {
		return nil, fmt.Errorf("package errors not loaded")
	}
	if rp := prog.ImportedPackage("reflect"); rp != nil {
		ld.rtypePtrT = types.NewPointer(rp.Pkg.Scope().Lookup("rtype").Type())
	}
	for _, sp := range spkgs {
		if sp == nil {
			continue
		}
		isH := false
		for _, p := range pkgs {
			if p.PkgPath == sp.Pkg.Path() {
				isH = true
			}
		}
		if !isH {
			continue
		}
		ld.harnessPkgs[sp.Pkg.Path()] = sp
		var names []string
		for n, m := range sp.Members {
			if f, ok := m.(*ssa.Function); ok && strings.HasPrefix(n, "Verif"+id+"_") {
				_ = f
				names = append(names, n)
			}
		}
		sort.Strings(names)
		for _, n := range names {
			ld.harnessFns = append(ld.harnessFns, sp.Members[n].(*ssa.Function))
		}
	}
	if out, err := exec.Command("git", "-C", repo, "rev-parse", "HEAD").Output(); err == nil {
		ld.repoHead = strings.TrimSpace(string(out))
	}
	if out, err := exec.Command("git", "-C", repo, "status", "--porcelain").Output(); err == nil {
		ld.repoDirty = strings.TrimSpace(string(out)) != ""
	}
	return ld, nil
}
