package main

// One long-lived SMT solver process per worker, driven over stdin/stdout.

import (
	"os"
	"bufio"
	"fmt"
	"io"
	"os/exec"
	"strconv"
	"strings"
	"time"
)

type SolverStats struct {
	Queries  int
	Sat      int
	Unsat    int
	Unknown  int
	Errors   int
	WallNs   int64
	ModelGet int
}

type Solver struct {
	cmd      *exec.Cmd
	in       io.WriteCloser
	out      *bufio.Reader
	tt       *TermTable
	declared map[string]bool
	declLvl  map[string]int
	depth    int
	asserted int // number of PC conjuncts already asserted since last reset
	stats    SolverStats
	kind     string
	log      io.Writer
	dead     bool
}

func solverArgs(kind string) (string, []string) {
	switch kind {
	case "z3":
		return "z3", []string{"-in", "-t:10000"}
	case "z3-new":
		return "z3-new", []string{"-in", "-t:10000"}
	case "cvc5":
		return "cvc5", []string{"--incremental", "--lang=smt2", "--produce-models", "--tlimit-per=10000"}
	}
	panic("unknown solver " + kind)
}

func NewSolver(kind string, tt *TermTable) (*Solver, error) {
	bin, args := solverArgs(kind)
	cmd := exec.Command(bin, args...)
	in, err := cmd.StdinPipe()
	if err != nil {
		return nil, err
	}
	outp, err := cmd.StdoutPipe()
	if err != nil {
		return nil, err
	}
	cmd.Stderr = cmd.Stdout
	if err := cmd.Start(); err != nil {
		return nil, err
	}
	s := &Solver{cmd: cmd, in: in, out: bufio.NewReaderSize(outp, 1<<16), tt: tt, declared: map[string]bool{}, kind: kind}
	s.send("(set-option :produce-models true)")
	if kind == "cvc5" {
		s.send("(set-logic ALL)")
	}
	return s, nil
}

func (s *Solver) Close() {
	if s.cmd != nil {
		s.in.Close()
		s.cmd.Process.Kill()
		s.cmd.Wait()
		s.cmd = nil
	}
}

func (s *Solver) send(line string) {
	if s.log != nil {
		fmt.Fprintln(s.log, line)
	}
	io.WriteString(s.in, line)
	io.WriteString(s.in, "\n")
}

func (s *Solver) Reset() {
	s.send("(reset)")
	s.send("(set-option :produce-models true)")
	if s.kind == "cvc5" {
		s.send("(set-logic ALL)")
	}
	s.declared = map[string]bool{}
	s.declLvl = nil
	s.depth = 0
	s.asserted = 0
}

func (s *Solver) declareFor(t *Term) {
	vars := map[string]*Term{}
	ufs := map[string]bool{}
	s.tt.Collect(t, vars, ufs, map[int]bool{})
	for n, v := range vars {
		if !s.declared["v:"+n] {
			s.markDeclared("v:" + n)
			s.send(fmt.Sprintf("(declare-const %s %s)", smtName(n), sortSMT(v.sort)))
		}
	}
	for n := range ufs {
		if !s.declared["f:"+n] {
			s.markDeclared("f:" + n)
			d := s.tt.ufs[n]
			var as []string
			for _, a := range d.args {
				as = append(as, sortSMT(a))
			}
			s.send(fmt.Sprintf("(declare-fun %s (%s) %s)", smtName(n), strings.Join(as, " "), sortSMT(d.res)))
		}
	}
}

func (s *Solver) Assert(t *Term) {
	s.declareFor(t)
	s.send("(assert " + s.tt.SMT(t) + ")")
}

func (s *Solver) Push() { s.send("(push 1)"); s.depth++ }
func (s *Solver) Pop() {
	s.send("(pop 1)")
	s.depth--
	for n, l := range s.declLvl {
		if l > s.depth {
			delete(s.declLvl, n)
			delete(s.declared, n)
		}
	}
}

func (s *Solver) markDeclared(key string) {
	s.declared[key] = true
	if s.depth > 0 {
		if s.declLvl == nil {
			s.declLvl = map[string]int{}
		}
		s.declLvl[key] = s.depth
	}
}

func (s *Solver) readLine() (string, error) {
	l, err := s.out.ReadString('\n')
	return strings.TrimRight(l, "\r\n"), err
}

// Check returns "sat", "unsat", "unknown" (also for errors/timeouts).
func (s *Solver) Check() string {
	t0 := time.Now()
	s.send("(check-sat)")
	s.stats.Queries++
	res := "unknown"
	sawErr := false
	for {
		l, err := s.readLine()
		if err != nil {
			s.dead = true
			s.stats.Errors++
			break
		}
		if l == "" {
			continue
		}
		if strings.HasPrefix(l, "(error") {
			s.stats.Errors++
			sawErr = true
			if s.stats.Errors <= 3 {
				fmt.Fprintln(os.Stderr, "solver error line:", l)
			}
			continue
		}
		if l == "sat" || l == "unsat" || l == "unknown" || l == "timeout" {
			if l == "timeout" {
				l = "unknown"
			}
			res = l
			if sawErr {
				res = "unknown"
			}
			break
		}
	}
	s.stats.WallNs += time.Since(t0).Nanoseconds()
	switch res {
	case "sat":
		s.stats.Sat++
	case "unsat":
		s.stats.Unsat++
	default:
		s.stats.Unknown++
	}
	return res
}

// Values fetches model values for the given variable terms (after a sat Check).
func (s *Solver) Values(vars []*Term) map[string]uint64 {
	m := map[string]uint64{}
	if len(vars) == 0 {
		return m
	}
	s.stats.ModelGet++
	// ask in chunks to keep lines manageable
	for i := 0; i < len(vars); i += 64 {
		j := i + 64
		if j > len(vars) {
			j = len(vars)
		}
		var names []string
		for _, v := range vars[i:j] {
			if !s.declared["v:"+v.name] {
				s.markDeclared("v:" + v.name)
				s.send(fmt.Sprintf("(declare-const %s %s)", smtName(v.name), sortSMT(v.sort)))
				// a declaration after check-sat invalidates the model in some solvers: re-check
				s.send("(check-sat)")
				s.readLine()
			}
			names = append(names, smtName(v.name))
		}
		s.send("(get-value (" + strings.Join(names, " ") + "))")
		// response: ((|a| #x01) (|b| true) ...) possibly over multiple lines
		var sb strings.Builder
		depth := 0
		started := false
		for {
			l, err := s.readLine()
			if err != nil {
				s.dead = true
				return m
			}
			sb.WriteString(l)
			sb.WriteString(" ")
			inBar := false
			for _, ch := range l {
				if ch == '|' {
					inBar = !inBar
				}
				if inBar {
					continue
				}
				if ch == '(' {
					depth++
					started = true
				} else if ch == ')' {
					depth--
				}
			}
			if started && depth <= 0 {
				break
			}
			if strings.HasPrefix(l, "(error") {
				s.stats.Errors++
				break
			}
		}
		parseValues(sb.String(), m)
	}
	return m
}

func parseValues(txt string, m map[string]uint64) {
	// tokens: |name| value pairs
	i := 0
	for i < len(txt) {
		if txt[i] != '|' {
			i++
			continue
		}
		j := strings.IndexByte(txt[i+1:], '|')
		if j < 0 {
			return
		}
		name := txt[i+1 : i+1+j]
		k := i + 1 + j + 1
		for k < len(txt) && txt[k] == ' ' {
			k++
		}
		// value token
		e := k
		if e < len(txt) && txt[e] == '(' {
			// (_ bvN W)
			e2 := strings.IndexByte(txt[e:], ')')
			tok := txt[e : e+e2+1]
			f := strings.Fields(strings.Trim(tok, "()"))
			if len(f) == 3 && strings.HasPrefix(f[1], "bv") {
				v, _ := strconv.ParseUint(f[1][2:], 10, 64)
				m[name] = v
			}
			i = e + e2 + 1
			continue
		}
		for e < len(txt) && txt[e] != ')' && txt[e] != ' ' {
			e++
		}
		tok := txt[k:e]
		switch {
		case tok == "true":
			m[name] = 1
		case tok == "false":
			m[name] = 0
		case strings.HasPrefix(tok, "#x"):
			v, _ := strconv.ParseUint(tok[2:], 16, 64)
			m[name] = v
		case strings.HasPrefix(tok, "#b"):
			v, _ := strconv.ParseUint(tok[2:], 2, 64)
			m[name] = v
		}
		i = e
	}
}

// RawCheck discharges a self-contained SMT-LIB problem in a fresh scope.
func (s *Solver) RawCheck(smt string) string {
	s.send("(push 1)")
	s.depth++
	for _, l := range strings.Split(strings.TrimSpace(smt), "\n") {
		s.send(l)
	}
	r := s.Check()
	s.Pop()
	return r
}
