module gosym

go 1.23

require (
	golang.org/x/tools v0.29.0
	github.com/mattn/go-runewidth v0.0.14
	github.com/rivo/uniseg v0.4.4
)
