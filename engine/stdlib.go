package main

// Leaf models that make large parts of the standard library interpretable from their own SSA:
// internal/bytealg kernels (assembly), unsafe-based accessors, sync primitives, and lazy package
// initialisation of external packages (tables such as unicode/utf8's are package-level variables).

import (
	"strconv"
	"math"
	"fmt"
	"go/types"

	"golang.org/x/tools/go/ssa"
)

func init() {
	more := map[string]intrinsic{
		"internal/bytealg.IndexByteString":     iIndexByte,
		"internal/bytealg.IndexByte":           iIndexByte,
		"internal/bytealg.LastIndexByteString": iLastIndexByte,
		"internal/bytealg.LastIndexByte":       iLastIndexByte,
		"internal/bytealg.IndexString":         iIndexString,
		"internal/bytealg.Index":               iIndexString,
		"internal/bytealg.CountString":         iCountByte,
		"internal/bytealg.Count":               iCountByte,
		"internal/bytealg.Equal":               iBytesEqual,
		"internal/bytealg.Compare":             iCompare,
		"internal/bytealg.CompareString":       iCompare,
		"internal/bytealg.MakeNoZero":          iMakeNoZero,
		"internal/bytealg.Cutover":             func(in *Interp, fn *ssa.Function, a []Value) Value { return in.intTerm(4) },
		"internal/stringslite.Index":           iIndexString,
		"internal/stringslite.IndexByte":       iIndexByte,
		"internal/stringslite.HasPrefix":       iStringsHasPrefix,
		"internal/stringslite.HasSuffix":       iStringsHasSuffix,
		"strings.Index":                        iIndexString,
		"strings.IndexByte":                    iIndexByte,
		"strings.Contains":                     iContains,
		"bytes.IndexByte":                      iIndexByte,
		"bytes.Index":                          iIndexString,
		"(*strings.Builder).String":            iBuilderString,
		"(*strings.Builder).copyCheck":         func(in *Interp, fn *ssa.Function, a []Value) Value { return nil },
		"unsafe.String":                        iUnsafeString,
		"strings.Clone":                        func(in *Interp, fn *ssa.Function, a []Value) Value { return a[0] },
		"(*sync.RWMutex).Lock":                 iRWLock,
		"(*sync.Pool).Get":                     iPoolGet,
		"(*sync.Pool).Put":                     iPoolPut,
		"(*sync.Map).Load":                     iSyncMapLoad,
		"(*sync.Map).Store":                    iSyncMapStore,
		"(*sync.Map).LoadOrStore":              iSyncMapLoadOrStore,
		"(*sync.Map).Delete":                   iSyncMapDelete,
		"(*sync.RWMutex).Unlock":               iMutexUnlock,
		"(*sync.RWMutex).RLock":                iRLock,
		"(*sync.RWMutex).RUnlock":              iRUnlock,
		"(*sync.Once).Do":                      iOnceDo,
		"(*sync.Once).doSlow":                  nil,
		"sync/atomic.LoadInt32":                iAtomicLoad,
		"sync/atomic.LoadInt64":                iAtomicLoad,
		"sync/atomic.LoadUint32":               iAtomicLoad,
		"sync/atomic.LoadUint64":               iAtomicLoad,
		"sync/atomic.StoreInt32":               iAtomicStore,
		"sync/atomic.StoreInt64":               iAtomicStore,
		"sync/atomic.StoreUint32":              iAtomicStore,
		"sync/atomic.StoreUint64":              iAtomicStore,
		"sync/atomic.AddInt32":                 iAtomicAdd,
		"sync/atomic.AddInt64":                 iAtomicAdd,
		"sync/atomic.AddUint32":                iAtomicAdd,
		"sync/atomic.AddUint64":                iAtomicAdd,
		"sync/atomic.CompareAndSwapInt32":      iAtomicCAS,
		"sync/atomic.CompareAndSwapInt64":      iAtomicCAS,
		"sync/atomic.CompareAndSwapUint32":     iAtomicCAS,
		"sync/atomic.CompareAndSwapUint64":     iAtomicCAS,
		"fmt.Sprint":                           iFmtSprint,
		"fmt.Sprintln":                         iFmtSprintln,
		"fmt.Fprintf":                          iFmtFprintf,
		"errors.Is":                            nil,
		"html/template.HTMLEscapeString":       iTemplateHTMLEscapeString,
		"reflect.DeepEqual":                    iDeepEqual,
		"(reflect.Value).IsNil":                iReflIsNil,
		"(reflect.Value).IsValid":              iReflIsValid,
		"(reflect.Value).Interface":            iReflInterface,
		"(reflect.Value).String":               iReflString,
		"(reflect.Value).Int":                  iReflInt,
		"(reflect.Value).Bool":                 iReflBool,
		"(reflect.Value).NumField":             iReflNumField,
		"(reflect.Value).Field":                iReflField,
		"(reflect.Value).Index":                iReflIndex,
		"(reflect.Value).IsZero":               iReflIsZero,
		"github.com/mattn/go-runewidth.RuneWidth":            iRuneWidth,
		"(*github.com/mattn/go-runewidth.Condition).RuneWidth": iRuneWidthM,
		"(*github.com/mattn/go-runewidth.Condition).StringWidth": iStringWidthM,
		"github.com/mattn/go-runewidth.CreateLUT":            iCreateLUT,
		"(*github.com/mattn/go-runewidth.Condition).CreateLUT": iCreateLUT,
		"strconv.FormatFloat":                  iFormatFloat,
		"strconv.AppendFloat":                  iAppendFloat,
		"strconv.ParseFloat":                   iParseFloat,
		"math.Abs":                             iMathFloat1,
		"math.Floor":                           iMathFloat1,
		"math.Ceil":                            iMathFloat1,
		"math.Trunc":                           iMathFloat1,
		"math.IsNaN":                           iMathIsNaN,
		"math.IsInf":                           iMathIsInf,
		"math.Inf":                             iMathInf,
		"math.NaN":                             iMathNaN,
		"math.Signbit":                         iMathSignbit,
		"math.Copysign":                        iMathCopysign,
		"strconv.Quote":                        iStrconvQuote,
		"sort.Slice":                           iSortSlice,
		"sort.SliceStable":                     iSortSlice,
		"sort.Ints":                            iSortInts,
		"(*sync/atomic.Value).Load":            iAtomicValueLoad,
		"(*sync/atomic.Value).Store":           iAtomicValueStore,
		"(*sync/atomic.Value).Swap":            iAtomicValueSwap,
		"(*sync/atomic.Pointer[T]).Load":       nil,
	}
	for k, v := range more {
		if v != nil {
			intrinsics[k] = v
		}
	}
}

func (in *Interp) firstByteArg(v Value) *Term {
	return v.(*Term)
}

// iIndexByte: first index of byte c in s (forks on each position until a match is decided).
func iIndexByte(in *Interp, fn *ssa.Function, a []Value) Value {
	s := in.bytesOf(a[0])
	c := a[1].(*Term)
	for i, b := range s {
		if in.branch(in.tt.Bin(OpEq, b, c)) {
			return in.intTerm(i)
		}
	}
	return in.intTerm(-1)
}

func iLastIndexByte(in *Interp, fn *ssa.Function, a []Value) Value {
	s := in.bytesOf(a[0])
	c := a[1].(*Term)
	for i := len(s) - 1; i >= 0; i-- {
		if in.branch(in.tt.Bin(OpEq, s[i], c)) {
			return in.intTerm(i)
		}
	}
	return in.intTerm(-1)
}

func iIndexString(in *Interp, fn *ssa.Function, a []Value) Value {
	s := in.bytesOf(a[0])
	sub := in.bytesOf(a[1])
	if len(sub) == 0 {
		return in.intTerm(0)
	}
	for i := 0; i+len(sub) <= len(s); i++ {
		cs := make([]*Term, len(sub))
		for j := range sub {
			cs[j] = in.tt.Bin(OpEq, s[i+j], sub[j])
		}
		if in.branch(in.tt.And(cs...)) {
			return in.intTerm(i)
		}
	}
	return in.intTerm(-1)
}

func iContains(in *Interp, fn *ssa.Function, a []Value) Value {
	r := iIndexString(in, fn, a).(*Term)
	return in.tt.Bool(signExt(r.val, 64) >= 0)
}

func iCountByte(in *Interp, fn *ssa.Function, a []Value) Value {
	s := in.bytesOf(a[0])
	c := a[1].(*Term)
	sum := in.tt.Const(64, 0)
	for _, b := range s {
		sum = in.tt.Bin(OpAdd, sum, in.tt.Ite(in.tt.Bin(OpEq, b, c), in.tt.Const(64, 1), in.tt.Const(64, 0)))
	}
	return sum
}

func iCompare(in *Interp, fn *ssa.Function, a []Value) Value {
	x, y := StrV{b: in.bytesOf(a[0])}, StrV{b: in.bytesOf(a[1])}
	if in.branch(in.valueEq(x, y)) {
		return in.intTerm(0)
	}
	if in.branch(in.strLess(x, y)) {
		return in.intTerm(-1)
	}
	return in.intTerm(1)
}

func iMakeNoZero(in *Interp, fn *ssa.Function, a []Value) Value {
	n := in.intOf(a[0], "MakeNoZero length")
	if n < 0 || n > 1<<20 {
		in.goPanicf("runtime error: makeslice: len out of range")
	}
	return in.makeSlice(types.Typ[types.Uint8], n, n)
}

func iBuilderString(in *Interp, fn *ssa.Function, a []Value) Value {
	p := a[0].(PtrV)
	if p.isNil() {
		in.goPanicf("runtime error: invalid memory address or nil pointer dereference (nil *strings.Builder)")
	}
	in.logAccess("rd", p)
	st := p.load().(*StructV)
	// strings.Builder{addr *Builder; buf []byte}
	return StrV{b: in.bytesOf(st.f[len(st.f)-1])}
}

func iUnsafeString(in *Interp, fn *ssa.Function, a []Value) Value {
	in.unsupported("unsafe.String")
	return nil
}

// RWMutex readers: any number may hold the lock together; a writer excludes them all.
func iRLock(in *Interp, fn *ssa.Function, a []Value) Value {
	p := a[0].(PtrV)
	if p.isNil() {
		in.goPanicf("runtime error: invalid memory address or nil pointer dereference (nil mutex)")
	}
	key := in.mutexKey(p)
	if in.sched != nil {
		in.yield()
		in.blockOn(key) // waits while a writer holds it
	} else if in.heldMutex[key] {
		panic(goPanic{msg: "fatal error: all goroutines are asleep - deadlock! (RLock of a write-locked mutex in a sequential run)", fn: "(*sync.RWMutex).RLock"})
	}
	in.readers[key]++
	in.logEvent("racq", p)
	return nil
}

func iRUnlock(in *Interp, fn *ssa.Function, a []Value) Value {
	p := a[0].(PtrV)
	key := in.mutexKey(p)
	if in.readers[key] == 0 {
		panic(goPanic{msg: "fatal error: sync: RUnlock of unlocked RWMutex", fn: "(*sync.RWMutex).RUnlock"})
	}
	in.logEvent("rrel", p)
	in.readers[key]--
	if in.sched != nil {
		in.yield()
	}
	return nil
}

func iRWLock(in *Interp, fn *ssa.Function, a []Value) Value {
	p := a[0].(PtrV)
	if p.isNil() {
		in.goPanicf("runtime error: invalid memory address or nil pointer dereference (nil mutex)")
	}
	key := in.mutexKey(p)
	if in.sched != nil {
		in.yield()
		for in.heldMutex[key] || in.readers[key] > 0 {
			in.heldMutex[key+"#w"] = true // a writer waits for the readers as for a lock
			in.blockOnCond(func() bool { return !in.heldMutex[key] && in.readers[key] == 0 })
			delete(in.heldMutex, key+"#w")
		}
	} else if in.heldMutex[key] || in.readers[key] > 0 {
		panic(goPanic{msg: "fatal error: all goroutines are asleep - deadlock!", fn: "(*sync.RWMutex).Lock"})
	}
	in.heldMutex[key] = true
	in.logEvent("acq", p)
	return nil
}

// sync.Pool: Get hands back the most recently Put value, else New() (one of the behaviours the
// real pool may show; it may also drop items).
func iPoolGet(in *Interp, fn *ssa.Function, a []Value) Value {
	p := a[0].(PtrV)
	key := in.mutexKey(p)
	in.yield()
	if l := in.pools[key]; len(l) > 0 {
		v := l[len(l)-1]
		in.pools[key] = l[:len(l)-1]
		return v
	}
	st := p.load().(*StructV)
	if newf, ok := st.f[len(st.f)-1].(FuncV); ok && newf.fn != nil {
		return in.callFn(newf.fn, nil, newf.env)
	}
	return IfaceV{}
}

func iPoolPut(in *Interp, fn *ssa.Function, a []Value) Value {
	p := a[0].(PtrV)
	key := in.mutexKey(p)
	in.yield()
	if v, ok := a[1].(IfaceV); ok && v.t != nil {
		in.pools[key] = append(in.pools[key], v)
	}
	return nil
}

// sync.Map: an association list kept by the engine per map object; every operation is atomic and a
// scheduling point.
func (in *Interp) syncMap(p PtrV) *MapV {
	key := "syncmap:" + in.mutexKey(p)
	if m, ok := in.syncMaps[key]; ok {
		return m
	}
	in.nextMap++
	m := &MapV{id: in.nextMap}
	if in.syncMaps == nil {
		in.syncMaps = map[string]*MapV{}
	}
	in.syncMaps[key] = m
	return m
}

func (in *Interp) syncMapFind(m *MapV, k Value) int {
	for i, ek := range m.keys {
		if in.branch(in.valueEq(ek, k)) {
			return i
		}
	}
	return -1
}

func iSyncMapLoad(in *Interp, fn *ssa.Function, a []Value) Value {
	in.yield()
	m := in.syncMap(a[0].(PtrV))
	if i := in.syncMapFind(m, a[1]); i >= 0 {
		return TupleV{m.vals[i], in.tt.tT}
	}
	return TupleV{IfaceV{}, in.tt.tF}
}

func iSyncMapStore(in *Interp, fn *ssa.Function, a []Value) Value {
	in.yield()
	m := in.syncMap(a[0].(PtrV))
	if i := in.syncMapFind(m, a[1]); i >= 0 {
		m.vals[i] = a[2]
		return nil
	}
	m.keys = append(m.keys, a[1])
	m.vals = append(m.vals, a[2])
	return nil
}

func iSyncMapLoadOrStore(in *Interp, fn *ssa.Function, a []Value) Value {
	in.yield()
	m := in.syncMap(a[0].(PtrV))
	if i := in.syncMapFind(m, a[1]); i >= 0 {
		return TupleV{m.vals[i], in.tt.tT}
	}
	m.keys = append(m.keys, a[1])
	m.vals = append(m.vals, a[2])
	return TupleV{a[2], in.tt.tF}
}

func iSyncMapDelete(in *Interp, fn *ssa.Function, a []Value) Value {
	in.yield()
	m := in.syncMap(a[0].(PtrV))
	if i := in.syncMapFind(m, a[1]); i >= 0 {
		m.keys = append(m.keys[:i:i], m.keys[i+1:]...)
		m.vals = append(m.vals[:i:i], m.vals[i+1:]...)
	}
	return nil
}

// sync.Once{done atomic.Uint32 / uint32; m Mutex}: Do runs f at most once; modelled as a critical
// section on the Once object (sound for race analysis: all Do calls are mutually ordered).
func iOnceDo(in *Interp, fn *ssa.Function, a []Value) Value {
	p := a[0].(PtrV)
	if p.isNil() {
		in.goPanicf("runtime error: invalid memory address or nil pointer dereference (nil *sync.Once)")
	}
	in.yield()
	okey := in.mutexKey(p) + "#once"
	if in.sched != nil {
		in.blockOn(okey)
	}
	in.heldMutex[okey] = true
	in.logEvent("acq", p)
	defer delete(in.heldMutex, okey)
	key := fmt.Sprintf("once:%d:%s", p.obj.id, pathKey(p.path))
	if !in.onceDone[key] {
		in.onceDone[key] = true
		fv := a[1].(FuncV)
		if fv.fn == nil {
			in.goPanicf("runtime error: invalid memory address or nil pointer dereference (nil func in Once.Do)")
		}
		in.callFn(fv.fn, nil, fv.env)
	}
	in.logEvent("rel", p)
	return nil
}

func iAtomicLoad(in *Interp, fn *ssa.Function, a []Value) Value {
	in.yield()
	p := a[0].(PtrV)
	if p.isNil() {
		in.goPanicf("runtime error: invalid memory address or nil pointer dereference")
	}
	in.logAtomic(false, p)
	return p.load()
}

func iAtomicStore(in *Interp, fn *ssa.Function, a []Value) Value {
	in.yield()
	p := a[0].(PtrV)
	if p.isNil() {
		in.goPanicf("runtime error: invalid memory address or nil pointer dereference")
	}
	p.store(a[1])
	in.logAtomic(true, p)
	return nil
}

func iAtomicAdd(in *Interp, fn *ssa.Function, a []Value) Value {
	in.yield()
	p := a[0].(PtrV)
	if p.isNil() {
		in.goPanicf("runtime error: invalid memory address or nil pointer dereference")
	}
	in.logAtomic(false, p)
	nv := in.tt.Bin(OpAdd, p.load().(*Term), a[1].(*Term))
	p.store(nv)
	in.logAtomic(true, p)
	return nv
}

func iAtomicCAS(in *Interp, fn *ssa.Function, a []Value) Value {
	in.yield()
	p := a[0].(PtrV)
	if p.isNil() {
		in.goPanicf("runtime error: invalid memory address or nil pointer dereference")
	}
	in.logAtomic(false, p)
	if in.branch(in.tt.Bin(OpEq, p.load().(*Term), a[1].(*Term))) {
		p.store(a[2])
		in.logAtomic(true, p)
		return in.tt.tT
	}
	return in.tt.tF
}

func iFmtSprint(in *Interp, fn *ssa.Function, a []Value) Value {
	return StrV{b: in.fprintBytes(in.variadic(a[0]), false)}
}

func iFmtSprintln(in *Interp, fn *ssa.Function, a []Value) Value {
	return StrV{b: in.fprintBytes(in.variadic(a[0]), true)}
}

// ensureExtInit runs the initialiser of an external package the first time one of its functions is
// interpreted on a path (nested initialisers of other external packages stay lazy).
func (in *Interp) ensureExtInit(fn *ssa.Function) {
	pkg := fn.Pkg
	if pkg == nil || in.ld.isModulePkg(pkg.Pkg) || in.extInit[pkg] {
		return
	}
	if !lazyInitPkgs[pkg.Pkg.Path()] {
		// other packages: their initialisers are not run; functions depending on package-level
		// tables of such packages are not interpreted correctly and must be modelled explicitly
		in.extInit[pkg] = true
		return
	}
	in.extInit[pkg] = true
	initFn := pkg.Func("init")
	if initFn == nil || len(initFn.Blocks) == 0 {
		return
	}
	saved := in.traceOn
	in.traceOn = false
	in.runningExtInit++
	in.callFnRaw(initFn, nil, nil)
	in.runningExtInit--
	in.traceOn = saved
}

// packages whose initialisers only build constant tables (safe and necessary to run)
var lazyInitPkgs = map[string]bool{
	"unicode/utf8": true, "unicode": true, "strconv": true, "strings": true, "bytes": true,
	"math/bits": true, "sort": true, "slices": true, "unicode/utf16": true, "math": true,
	"internal/stringslite": true, "path": true, "html": true, "io": true, "bufio": true,
}

// sync/atomic.Value{v any}: the stored interface value is kept in field 0.
func iAtomicValueLoad(in *Interp, fn *ssa.Function, a []Value) Value {
	in.yield()
	p := a[0].(PtrV)
	if p.isNil() {
		in.goPanicf("runtime error: invalid memory address or nil pointer dereference")
	}
	in.logAtomic(false, p)
	v, ok := p.sub(0).load().(IfaceV)
	if !ok {
		return IfaceV{}
	}
	return v
}

func iAtomicValueStore(in *Interp, fn *ssa.Function, a []Value) Value {
	in.yield()
	p := a[0].(PtrV)
	if p.isNil() {
		in.goPanicf("runtime error: invalid memory address or nil pointer dereference")
	}
	nv := a[1].(IfaceV)
	if nv.t == nil {
		panic(goPanic{msg: "panic: sync/atomic: store of nil value into Value", fn: "(*sync/atomic.Value).Store"})
	}
	if old, ok := p.sub(0).load().(IfaceV); ok && old.t != nil && !types.Identical(old.t, nv.t) {
		panic(goPanic{msg: "panic: sync/atomic: store of inconsistently typed value into Value", fn: "(*sync/atomic.Value).Store"})
	}
	p.sub(0).store(nv)
	in.logAtomic(true, p)
	return nil
}

// atomic.Pointer[T]: struct{ _ [0]*T; _ noCopy; v unsafe.Pointer } - the model keeps a pointer value
// in the last field.
func atomicPointerField(in *Interp, a []Value) PtrV {
	p := a[0].(PtrV)
	if p.isNil() {
		in.goPanicf("runtime error: invalid memory address or nil pointer dereference")
	}
	n := len(p.load().(*StructV).f)
	return p.sub(n - 1)
}

func iAtomicPointerLoad(in *Interp, fn *ssa.Function, a []Value) Value {
	in.yield()
	f := atomicPointerField(in, a)
	in.logAtomic(false, a[0].(PtrV))
	if v, ok := f.load().(PtrV); ok {
		return v
	}
	return PtrV{}
}

func iAtomicPointerStore(in *Interp, fn *ssa.Function, a []Value) Value {
	in.yield()
	f := atomicPointerField(in, a)
	f.store(a[1].(PtrV))
	in.logAtomic(true, a[0].(PtrV))
	return nil
}

func iAtomicPointerSwap(in *Interp, fn *ssa.Function, a []Value) Value {
	in.yield()
	f := atomicPointerField(in, a)
	old, _ := f.load().(PtrV)
	f.store(a[1].(PtrV))
	in.logAtomic(true, a[0].(PtrV))
	return old
}

func iAtomicPointerCAS(in *Interp, fn *ssa.Function, a []Value) Value {
	in.yield()
	f := atomicPointerField(in, a)
	cur, _ := f.load().(PtrV)
	if in.branch(in.valueEq(cur, a[1].(PtrV))) {
		f.store(a[2].(PtrV))
		in.logAtomic(true, a[0].(PtrV))
		return in.tt.tT
	}
	in.logAtomic(false, a[0].(PtrV))
	return in.tt.tF
}

func iAtomicValueSwap(in *Interp, fn *ssa.Function, a []Value) Value {
	old := iAtomicValueLoad(in, fn, a)
	iAtomicValueStore(in, fn, a)
	return old
}

// atomic events for the schedule analysis: a load observes the latest store to that location in the
// explored execution (reads-from), which any re-ordering considered by the clock encoding must preserve.
func (in *Interp) logAtomic(store bool, p PtrV) {
	if !in.traceOn || p.obj == nil {
		return
	}
	key := in.mutexKey(p)
	if store {
		in.atomicSeq++
		in.lastStore[key] = in.atomicSeq
		in.events = append(in.events, Event{Thread: in.curThread, Kind: "ast", Obj: p.obj.id, Path: pathKey(p.path), Seq: in.atomicSeq})
		return
	}
	in.events = append(in.events, Event{Thread: in.curThread, Kind: "ald", Obj: p.obj.id, Path: pathKey(p.path), Seq: in.lastStore[key]})
}

// sort.Slice / SliceStable: stable insertion sort calling the less closure through the interpreter.
func iSortSlice(in *Interp, fn *ssa.Function, a []Value) Value {
	iv := a[0].(IfaceV)
	s, ok := iv.v.(SliceV)
	if !ok {
		in.unsupported("sort.Slice on non-slice")
	}
	less := a[1].(FuncV)
	if s.len < 2 {
		return nil
	}
	// less(i, j) refers to the slice's current contents: sort in place with adjacent swaps
	for i := 1; i < s.len; i++ {
		for j := i; j > 0; j-- {
			r := in.callFn(less.fn, []Value{in.intTerm(j), in.intTerm(j - 1)}, less.env).(*Term)
			if !in.branch(r) {
				break
			}
			old := s.arr.v.(*ArrayV)
			ne := make([]Value, len(old.e))
			copy(ne, old.e)
			ne[s.off+j], ne[s.off+j-1] = ne[s.off+j-1], ne[s.off+j]
			s.arr.v = &ArrayV{e: ne}
			in.logObj("wr", s.arr)
		}
	}
	return nil
}

func iSortInts(in *Interp, fn *ssa.Function, a []Value) Value {
	s := a[0].(SliceV)
	if s.len < 2 {
		return nil
	}
	es := append([]Value(nil), in.sliceElems(s)...)
	for i := 1; i < len(es); i++ {
		for j := i; j > 0; j-- {
			if in.branch(in.tt.Bin(OpSlt, es[j].(*Term), es[j-1].(*Term))) {
				es[j], es[j-1] = es[j-1], es[j]
			} else {
				break
			}
		}
	}
	old := s.arr.v.(*ArrayV)
	ne := make([]Value, len(old.e))
	copy(ne, old.e)
	copy(ne[s.off:], es)
	s.arr.v = &ArrayV{e: ne}
	return nil
}

// too large to keep in the per-path snapshot: initialised lazily on first use instead
var heavyInitPkgs = map[string]bool{"unicode": true, "strconv": true, "html": true, "math": true}

// ---- reflect (more of the subset)

func iReflIsNil(in *Interp, fn *ssa.Function, a []Value) Value {
	r := a[0].(*ReflV)
	if r.zero {
		panic(goPanic{msg: "panic: reflect: call of reflect.Value.IsNil on zero Value", fn: "reflect.Value.IsNil"})
	}
	switch v := r.get().(type) {
	case PtrV:
		return in.tt.Bool(v.isNil())
	case SliceV:
		return in.tt.Bool(v.arr == nil)
	case *MapV:
		return in.tt.Bool(v == nil)
	case FuncV:
		return in.tt.Bool(v.fn == nil)
	case IfaceV:
		return in.tt.Bool(v.t == nil)
	case *OpaqueV:
		if v.kind == "chan" {
			return in.tt.tT
		}
	}
	panic(goPanic{msg: "panic: reflect: call of reflect.Value.IsNil on " + r.typ.String() + " Value", fn: "reflect.Value.IsNil"})
}

func iReflIsValid(in *Interp, fn *ssa.Function, a []Value) Value {
	return in.tt.Bool(!a[0].(*ReflV).zero)
}

func iReflInterface(in *Interp, fn *ssa.Function, a []Value) Value {
	r := a[0].(*ReflV)
	if r.zero {
		panic(goPanic{msg: "panic: reflect: call of reflect.Value.Interface on zero Value", fn: "reflect.Value.Interface"})
	}
	if _, isIface := r.typ.Underlying().(*types.Interface); isIface {
		return r.get()
	}
	return IfaceV{t: r.typ, v: r.get()}
}

func iReflString(in *Interp, fn *ssa.Function, a []Value) Value {
	r := a[0].(*ReflV)
	if s, ok := r.get().(StrV); ok && !r.zero {
		return s
	}
	in.unsupported("reflect.Value.String on non-string")
	return nil
}

func iReflInt(in *Interp, fn *ssa.Function, a []Value) Value {
	r := a[0].(*ReflV)
	if t, ok := r.get().(*Term); ok && !r.zero && t.sort != 0 {
		return in.tt.Resize(t, 64, true)
	}
	in.unsupported("reflect.Value.Int on non-integer")
	return nil
}

func iReflBool(in *Interp, fn *ssa.Function, a []Value) Value {
	r := a[0].(*ReflV)
	if t, ok := r.get().(*Term); ok && !r.zero && t.sort == 0 {
		return t
	}
	in.unsupported("reflect.Value.Bool on non-bool")
	return nil
}

func iReflNumField(in *Interp, fn *ssa.Function, a []Value) Value {
	r := a[0].(*ReflV)
	if st, ok := r.typ.Underlying().(*types.Struct); ok && !r.zero {
		return in.intTerm(st.NumFields())
	}
	panic(goPanic{msg: "panic: reflect: call of reflect.Value.NumField on non-struct Value", fn: "reflect.Value.NumField"})
}

func iReflField(in *Interp, fn *ssa.Function, a []Value) Value {
	r := a[0].(*ReflV)
	i := in.intOf(a[1], "reflect field index")
	st, ok := r.typ.Underlying().(*types.Struct)
	if !ok || r.zero || i < 0 || i >= st.NumFields() {
		panic(goPanic{msg: "panic: reflect: Field index out of range", fn: "reflect.Value.Field"})
	}
	if r.ptr != nil {
		p := r.ptr.sub(i)
		return &ReflV{ptr: &p, typ: st.Field(i).Type()}
	}
	return &ReflV{val: r.val.(*StructV).f[i], typ: st.Field(i).Type()}
}

func iReflIndex(in *Interp, fn *ssa.Function, a []Value) Value {
	r := a[0].(*ReflV)
	i := in.intOf(a[1], "reflect index")
	switch v := r.get().(type) {
	case SliceV:
		if i < 0 || i >= v.len {
			panic(goPanic{msg: "panic: reflect: slice index out of range", fn: "reflect.Value.Index"})
		}
		p := PtrV{obj: v.arr, path: []int{v.off + i}}
		return &ReflV{ptr: &p, typ: r.typ.Underlying().(*types.Slice).Elem()}
	case StrV:
		if i < 0 || i >= len(v.b) {
			panic(goPanic{msg: "panic: reflect: string index out of range", fn: "reflect.Value.Index"})
		}
		return &ReflV{val: v.b[i], typ: types.Typ[types.Uint8]}
	}
	in.unsupported("reflect.Value.Index")
	return nil
}

func iReflIsZero(in *Interp, fn *ssa.Function, a []Value) Value {
	r := a[0].(*ReflV)
	if r.zero {
		panic(goPanic{msg: "panic: reflect: call of reflect.Value.IsZero on zero Value", fn: "reflect.Value.IsZero"})
	}
	return in.valueEq(r.get(), in.zero(r.typ))
}

// reflect.DeepEqual on interpreter values (pointers compare by pointee, with a visited set).
func iDeepEqual(in *Interp, fn *ssa.Function, a []Value) Value {
	x, y := a[0].(IfaceV), a[1].(IfaceV)
	return in.deepEq(x, y, map[[2]*Obj]bool{}, 0)
}

func (in *Interp) deepEq(a, b Value, seen map[[2]*Obj]bool, depth int) *Term {
	if depth > 50 {
		in.unsupported("reflect.DeepEqual: structure too deep")
	}
	switch x := a.(type) {
	case IfaceV:
		y, ok := b.(IfaceV)
		if !ok {
			return in.tt.tF
		}
		if x.t == nil || y.t == nil {
			return in.tt.Bool(x.t == nil && y.t == nil)
		}
		if !types.Identical(x.t, y.t) {
			return in.tt.tF
		}
		return in.deepEq(x.v, y.v, seen, depth+1)
	case PtrV:
		y, ok := b.(PtrV)
		if !ok {
			return in.tt.tF
		}
		if x.isNil() || y.isNil() {
			return in.tt.Bool(x.isNil() && y.isNil())
		}
		if ptrEq(x, y) {
			return in.tt.tT
		}
		k := [2]*Obj{x.obj, y.obj}
		if seen[k] {
			return in.tt.tT
		}
		seen[k] = true
		return in.deepEq(x.load(), y.load(), seen, depth+1)
	case *StructV:
		y, ok := b.(*StructV)
		if !ok || len(x.f) != len(y.f) {
			return in.tt.tF
		}
		cs := []*Term{}
		for i := range x.f {
			c := in.deepEq(x.f[i], y.f[i], seen, depth+1)
			if c.IsFalse() {
				return c
			}
			cs = append(cs, c)
		}
		return in.tt.And(cs...)
	case *ArrayV:
		y, ok := b.(*ArrayV)
		if !ok || len(x.e) != len(y.e) {
			return in.tt.tF
		}
		cs := []*Term{}
		for i := range x.e {
			c := in.deepEq(x.e[i], y.e[i], seen, depth+1)
			if c.IsFalse() {
				return c
			}
			cs = append(cs, c)
		}
		return in.tt.And(cs...)
	case SliceV:
		y, ok := b.(SliceV)
		if !ok {
			return in.tt.tF
		}
		if (x.arr == nil) != (y.arr == nil) || x.len != y.len {
			return in.tt.tF
		}
		xe, ye := in.sliceElems(x), in.sliceElems(y)
		cs := []*Term{}
		for i := range xe {
			c := in.deepEq(xe[i], ye[i], seen, depth+1)
			if c.IsFalse() {
				return c
			}
			cs = append(cs, c)
		}
		return in.tt.And(cs...)
	case *MapV:
		y, ok := b.(*MapV)
		if !ok {
			return in.tt.tF
		}
		if x == nil || y == nil {
			return in.tt.Bool(x == y)
		}
		if len(x.keys) != len(y.keys) {
			return in.tt.tF
		}
		in.unsupported("reflect.DeepEqual on non-empty maps")
	case FuncV:
		y, ok := b.(FuncV)
		return in.tt.Bool(ok && x.fn == nil && y.fn == nil)
	}
	return in.valueEq(a, b)
}

// ---- go-runewidth: never interpreted (its tables are package-level state the engine does not build)

func iRuneWidth(in *Interp, fn *ssa.Function, a []Value) Value {
	r := a[len(a)-1].(*Term)
	if r.op == OpConst {
		rv := rune(signExt(r.val, r.sort))
		n, e := rwNarrow.RuneWidth(rv), rwEastAsianCond.RuneWidth(rv)
		if ea := in.rwEastAsian(); n != e && !ea.IsFalse() {
			return in.tt.Ite(ea, in.intTerm(e), in.intTerm(n))
		}
		return in.intTerm(n)
	}
	if in.branch(in.tt.Bin(OpUlt, in.tt.Resize(r, 64, true), in.tt.Const(64, 0x80))) {
		isP := in.tt.And(in.tt.Bin(OpSle, in.tt.Const(r.sort, 0x20), r), in.tt.Bin(OpSle, r, in.tt.Const(r.sort, 0x7e)))
		return in.tt.Ite(isP, in.tt.Const(64, 1), in.tt.Const(64, 0))
	}
	in.unsupported("runewidth.RuneWidth of a symbolic non-ASCII rune")
	return nil
}

func iRuneWidthM(in *Interp, fn *ssa.Function, a []Value) Value {
	in.logRunewidthGlobal("rd")
	return iRuneWidth(in, fn, a)
}

func iStringWidthM(in *Interp, fn *ssa.Function, a []Value) Value {
	return iStringWidth(in, fn, a[1:])
}

func iCreateLUT(in *Interp, fn *ssa.Function, a []Value) Value {
	in.logRunewidthGlobal("wr")
	return nil
}

// the package-level condition object of go-runewidth (read by every width computation, written by CreateLUT)
func (in *Interp) logRunewidthGlobal(kind string) {
	if !in.traceOn {
		return
	}
	in.events = append(in.events, Event{Thread: in.curThread, Kind: kind, Obj: -1000000, Path: "runewidth.DefaultCondition", PCLen: len(in.pc)})
}

// ---- strconv on concrete floats / symbolic quoting

func iFormatFloat(in *Interp, fn *ssa.Function, a []Value) Value {
	f, ok := a[0].(*OpaqueV)
	if !ok || f.kind != "float" {
		in.unsupported("strconv.FormatFloat of a non-concrete float")
	}
	fmtc := byte(in.intOf(a[1], "FormatFloat fmt"))
	prec := in.intOf(a[2], "FormatFloat prec")
	bits := in.intOf(a[3], "FormatFloat bitSize")
	return in.mkStr(strconvFormatFloat(f.data.(float64), fmtc, prec, bits))
}

func (in *Interp) floatOf(v Value, what string) float64 {
	f, ok := v.(*OpaqueV)
	if !ok || f.kind != "float" || f.data == nil {
		in.unsupported(what + " of a non-concrete float")
	}
	return f.data.(float64)
}

func iAppendFloat(in *Interp, fn *ssa.Function, a []Value) Value {
	f := in.floatOf(a[1], "strconv.AppendFloat")
	fmtc := byte(in.intOf(a[2], "AppendFloat fmt"))
	prec := in.intOf(a[3], "AppendFloat prec")
	bits := in.intOf(a[4], "AppendFloat bitSize")
	txt := in.mkStr(strconvFormatFloat(f, fmtc, prec, bits))
	add := make([]Value, len(txt.b))
	for i, b := range txt.b {
		add[i] = b
	}
	return in.appendSlice(a[0].(SliceV), add, types.Typ[types.Uint8])
}

func iParseFloat(in *Interp, fn *ssa.Function, a []Value) Value {
	cs, ok := concreteString(a[0].(StrV))
	if !ok {
		in.unsupported("strconv.ParseFloat of a symbolic string")
	}
	f, err := strconv.ParseFloat(cs, in.intOf(a[1], "ParseFloat bitSize"))
	if err != nil {
		return TupleV{&OpaqueV{kind: "float", data: f}, in.newError(in.mkStr(err.Error()))}
	}
	return TupleV{&OpaqueV{kind: "float", data: f}, errNilIface}
}

func iMathFloat1(in *Interp, fn *ssa.Function, a []Value) Value {
	f := in.floatOf(a[0], "math."+fn.Name())
	switch fn.Name() {
	case "Abs":
		f = math.Abs(f)
	case "Floor":
		f = math.Floor(f)
	case "Ceil":
		f = math.Ceil(f)
	case "Trunc":
		f = math.Trunc(f)
	}
	return &OpaqueV{kind: "float", data: f}
}

func iMathIsNaN(in *Interp, fn *ssa.Function, a []Value) Value {
	return in.tt.Bool(math.IsNaN(in.floatOf(a[0], "math.IsNaN")))
}

func iMathIsInf(in *Interp, fn *ssa.Function, a []Value) Value {
	return in.tt.Bool(math.IsInf(in.floatOf(a[0], "math.IsInf"), in.intOf(a[1], "math.IsInf sign")))
}

func iMathInf(in *Interp, fn *ssa.Function, a []Value) Value {
	return &OpaqueV{kind: "float", data: math.Inf(in.intOf(a[0], "math.Inf sign"))}
}

func iMathNaN(in *Interp, fn *ssa.Function, a []Value) Value {
	return &OpaqueV{kind: "float", data: math.NaN()}
}

func iMathSignbit(in *Interp, fn *ssa.Function, a []Value) Value {
	return in.tt.Bool(math.Signbit(in.floatOf(a[0], "math.Signbit")))
}

func iMathCopysign(in *Interp, fn *ssa.Function, a []Value) Value {
	return &OpaqueV{kind: "float", data: math.Copysign(in.floatOf(a[0], "math.Copysign"), in.floatOf(a[1], "math.Copysign"))}
}

func iStrconvQuote(in *Interp, fn *ssa.Function, a []Value) Value {
	bs, ok := in.quoteSym(a[0].(StrV))
	if !ok {
		in.unsupported("strconv.Quote of symbolic non-ASCII bytes")
	}
	return StrV{b: bs}
}

// quoteSym: strconv.Quote for strings whose symbolic bytes are ASCII (forks on the byte classes).
func (in *Interp) quoteSym(s StrV) ([]*Term, bool) {
	if cs, ok := concreteString(s); ok {
		return in.mkStr(strconvQuote(cs)).b, true
	}
	return in.quoteSymForce(s)
}

func (in *Interp) quoteSymForce(s StrV) ([]*Term, bool) {
	out := []*Term{in.tt.b8['"']}
	eq := func(b *Term, c byte) bool { return in.branch(in.tt.Bin(OpEq, b, in.tt.b8[c])) }
	for _, b := range s.b {
		if !in.branch(in.tt.Bin(OpUlt, b, in.tt.b8[0x80])) {
			return nil, false
		}
		switch {
		case eq(b, '"'):
			out = append(out, in.mkStr("\\\"").b...)
		case eq(b, '\\'):
			out = append(out, in.mkStr("\\\\").b...)
		case eq(b, 7):
			out = append(out, in.mkStr("\\a").b...)
		case eq(b, 8):
			out = append(out, in.mkStr("\\b").b...)
		case eq(b, 12):
			out = append(out, in.mkStr("\\f").b...)
		case eq(b, 10):
			out = append(out, in.mkStr("\\n").b...)
		case eq(b, 13):
			out = append(out, in.mkStr("\\r").b...)
		case eq(b, 9):
			out = append(out, in.mkStr("\\t").b...)
		case eq(b, 11):
			out = append(out, in.mkStr("\\v").b...)
		case in.branch(in.tt.Or(in.tt.Bin(OpUlt, b, in.tt.b8[0x20]), in.tt.Bin(OpEq, b, in.tt.b8[0x7f]))):
			hexd := func(n *Term) *Term {
				return in.tt.Ite(in.tt.Bin(OpUlt, n, in.tt.b8[10]), in.tt.Bin(OpAdd, n, in.tt.b8['0']), in.tt.Bin(OpAdd, n, in.tt.b8['a'-10]))
			}
			out = append(out, in.mkStr("\\x").b...)
			out = append(out, hexd(in.tt.Bin(OpLShr, b, in.tt.b8[4])), hexd(in.tt.Bin(OpAnd, b, in.tt.b8[0x0f])))
		default:
			out = append(out, b)
		}
	}
	return append(out, in.tt.b8['"']), true
}

// libraries whose package-level variables may be touched although their initialisers are not run
// (zero values are their correct initial state, or the engine models every function that reads them)
var benignGlobals = map[string]bool{"sync": true, "sync/atomic": true, "errors": true, "fmt": true}

func iTemplateHTMLEscapeString(in *Interp, fn *ssa.Function, a []Value) Value {
	return in.htmlTemplateEscape(a[0].(StrV))
}
