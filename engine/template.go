package main

// Symbolic evaluation of html/template (DESIGN §5). The template *source* comes from the program under
// test (a concrete string on the path); the real html/template library parses it and performs its
// context analysis natively (we read the result: the parse tree with the escaper calls it inserted);
// execution of that tree is then done here over symbolic values, calling the FuncMap closures through
// the SSA interpreter. Escaper functions are models of html/template's htmlEscaper / attrEscaper.

import (
	"fmt"
	"go/types"
	htmltemplate "html/template"
	"io"
	"reflect"
	"sort"
	"strings"
	"sync"
	"text/template/parse"

	"golang.org/x/tools/go/ssa"
)

type tmplState struct {
	name  string
	funcs map[string]FuncV
	order []string
	src   string
	tree  *parse.Tree // escaped tree, computed at first Execute
}

func templateIntrinsic(fn *ssa.Function) intrinsic {
	switch fn.String() {
	case "html/template.New":
		return iTemplateNew
	case "(*html/template.Template).Funcs":
		return iTemplateFuncs
	case "(*html/template.Template).Parse":
		return iTemplateParse
	case "(*html/template.Template).Execute":
		return iTemplateExecute
	}
	return nil
}

func (in *Interp) tmplOf(v Value) *tmplState {
	p := v.(PtrV)
	if p.isNil() {
		in.goPanicf("runtime error: invalid memory address or nil pointer dereference (nil *template.Template)")
	}
	return p.load().(*OpaqueV).data.(*tmplState)
}

func iTemplateNew(in *Interp, fn *ssa.Function, a []Value) Value {
	name := in.concreteStr(a[0], "template name")
	st := &tmplState{name: name, funcs: map[string]FuncV{}}
	o := in.newObj(nil, &OpaqueV{kind: "template", data: st}, "html/template.Template")
	return PtrV{obj: o}
}

func iTemplateFuncs(in *Interp, fn *ssa.Function, a []Value) Value {
	in.yield() // the library synchronises internally here: a scheduling point
	st := in.tmplOf(a[0])
	m := a[1].(*MapV)
	if m != nil {
		for i, k := range m.keys {
			name := in.concreteStr(k, "FuncMap key")
			iv := m.vals[i].(IfaceV)
			fv, ok := iv.v.(FuncV)
			if !ok {
				in.unsupported("FuncMap entry that is not a function: " + name)
			}
			if _, seen := st.funcs[name]; !seen {
				st.order = append(st.order, name)
			}
			st.funcs[name] = fv
		}
	}
	in.logAccess("wr", a[0].(PtrV))
	return a[0]
}

func iTemplateParse(in *Interp, fn *ssa.Function, a []Value) Value {
	st := in.tmplOf(a[0])
	st.src = in.concreteStr(a[1], "template source")
	st.tree = nil
	// syntax check with the real parser
	dummy := htmltemplate.FuncMap{}
	for name := range st.funcs {
		dummy[name] = func(args ...interface{}) interface{} { return nil }
	}
	if _, err := htmltemplate.New(st.name).Funcs(dummy).Parse(st.src); err != nil {
		return TupleV{PtrV{}, in.newError(in.mkStr("template: " + err.Error()))}
	}
	in.logAccess("wr", a[0].(PtrV))
	return TupleV{a[0], errNilIface}
}

// escapedTree runs the real library's context analysis on the template source and returns the
// rewritten tree (cached per source/function names/data shape).
var escapedCache = map[string]*parse.Tree{}
var escapedMu sync.Mutex

func (in *Interp) escapedTree(st *tmplState, dataT types.Type) *parse.Tree {
	var names []string
	for n := range st.funcs {
		names = append(names, n)
	}
	sort.Strings(names)
	key := st.name + "\x00" + st.src + "\x00" + strings.Join(names, ",") + "\x00" + dataT.String()
	escapedMu.Lock()
	defer escapedMu.Unlock()
	if t, ok := escapedCache[key]; ok {
		return t
	}
	dummy := htmltemplate.FuncMap{}
	for _, name := range names {
		dummy[name] = func(args ...interface{}) interface{} { return nil }
	}
	t, err := htmltemplate.New(st.name).Funcs(dummy).Parse(st.src)
	if err != nil {
		in.unsupported("template does not parse: " + err.Error())
	}
	// dummy data with the same field names so that execution gets past field lookups
	var data interface{}
	if s, ok := dataT.Underlying().(*types.Struct); ok {
		var fields []reflect.StructField
		for i := 0; i < s.NumFields(); i++ {
			f := s.Field(i)
			if !f.Exported() {
				continue
			}
			var rt reflect.Type
			switch b := f.Type().Underlying().(type) {
			case *types.Basic:
				switch {
				case b.Info()&types.IsString != 0:
					rt = reflect.TypeOf("")
				case b.Info()&types.IsBoolean != 0:
					rt = reflect.TypeOf(false)
				case b.Info()&types.IsInteger != 0:
					rt = reflect.TypeOf(0)
				}
			}
			if rt == nil {
				rt = reflect.TypeOf((*interface{})(nil)).Elem()
			}
			fields = append(fields, reflect.StructField{Name: f.Name(), Type: rt})
		}
		data = reflect.New(reflect.StructOf(fields)).Elem().Interface()
	}
	_ = t.Execute(io.Discard, data) // forces escaping; execution errors with dummy functions are irrelevant
	tree := t.Tree
	if tree == nil || tree.Root == nil {
		in.unsupported("template has no tree after escaping")
	}
	escapedCache[key] = tree
	return tree
}

// tv is a dynamically typed template value.
type tv struct {
	t types.Type // nil = invalid/nil
	v Value
}

type tmplExec struct {
	in    *Interp
	st    *tmplState
	w     Value
	vars  []tmplVar
	werr  *IfaceV
	nodes int
}

type tmplVar struct {
	name string
	val  tv
}

type tmplWriteErr struct{ err IfaceV }

func iTemplateExecute(in *Interp, fn *ssa.Function, a []Value) (res Value) {
	in.yield()
	st := in.tmplOf(a[0])
	in.logAccess("rd", a[0].(PtrV))
	data := a[2].(IfaceV)
	if data.t == nil {
		in.unsupported("template executed with nil data")
	}
	if st.tree == nil {
		st.tree = in.escapedTree(st, data.t)
		in.logAccess("wr", a[0].(PtrV)) // the first Execute rewrites the template (escaping)
	}
	ex := &tmplExec{in: in, st: st, w: a[1]}
	dot := tv{t: data.t, v: data.v}
	ex.vars = []tmplVar{{"$", dot}}
	defer func() {
		if r := recover(); r != nil {
			if we, ok := r.(tmplWriteErr); ok {
				res = we.err
				return
			}
			panic(r)
		}
	}()
	ex.walk(dot, st.tree.Root)
	return errNilIface
}

func (ex *tmplExec) write(bs []*Term) {
	_, err := ex.in.callWrite(ex.w, bs)
	if err.t != nil {
		panic(tmplWriteErr{err})
	}
}

func (ex *tmplExec) truth(x tv) *Term {
	in := ex.in
	if x.t == nil {
		return in.tt.tF
	}
	switch u := x.t.Underlying().(type) {
	case *types.Basic:
		switch {
		case u.Info()&types.IsBoolean != 0:
			return x.v.(*Term)
		case u.Info()&types.IsString != 0:
			return in.tt.Bool(len(x.v.(StrV).b) > 0)
		case u.Info()&types.IsInteger != 0:
			t := x.v.(*Term)
			return in.tt.Not(in.tt.Bin(OpEq, t, in.tt.Const(t.sort, 0)))
		}
	case *types.Slice:
		return in.tt.Bool(x.v.(SliceV).len > 0)
	case *types.Map:
		m := x.v.(*MapV)
		return in.tt.Bool(m != nil && len(m.keys) > 0)
	case *types.Pointer:
		return in.tt.Bool(!x.v.(PtrV).isNil())
	case *types.Struct:
		return in.tt.tT
	case *types.Interface:
		iv := x.v.(IfaceV)
		return ex.truth(tv{iv.t, iv.v})
	case *types.Signature:
		return in.tt.Bool(x.v.(FuncV).fn != nil)
	}
	in.unsupported("template truth of " + x.t.String())
	return nil
}

func (ex *tmplExec) walk(dot tv, n parse.Node) {
	in := ex.in
	ex.nodes++
	if ex.nodes > 100000 {
		panic(engineErr{kind: "BOUND-EXCEEDED", msg: "template node budget"})
	}
	switch x := n.(type) {
	case *parse.ListNode:
		if x == nil {
			return
		}
		for _, c := range x.Nodes {
			ex.walk(dot, c)
		}
	case *parse.TextNode:
		ex.write(in.mkStr(string(x.Text)).b)
	case *parse.CommentNode:
	case *parse.ActionNode:
		val := ex.pipeline(dot, x.Pipe)
		if len(x.Pipe.Decl) == 0 {
			ex.print(val)
		}
	case *parse.IfNode:
		mark := len(ex.vars)
		val := ex.pipeline(dot, x.Pipe)
		if in.branch(ex.truth(val)) {
			ex.walk(dot, x.List)
		} else if x.ElseList != nil {
			ex.walk(dot, x.ElseList)
		}
		ex.vars = ex.vars[:mark]
	case *parse.WithNode:
		mark := len(ex.vars)
		val := ex.pipeline(dot, x.Pipe)
		if in.branch(ex.truth(val)) {
			ex.walk(val, x.List)
		} else if x.ElseList != nil {
			ex.walk(dot, x.ElseList)
		}
		ex.vars = ex.vars[:mark]
	case *parse.RangeNode:
		mark := len(ex.vars)
		val := ex.pipeline(dot, x.Pipe)
		count := 0
		if val.t != nil {
			sl, ok := val.t.Underlying().(*types.Slice)
			if !ok {
				in.unsupported("template range over " + val.t.String())
			}
			elems := in.sliceElems(val.v.(SliceV))
			for i, e := range elems {
				ev := ex.norm(tv{sl.Elem(), e})
				if len(x.Pipe.Decl) > 0 {
					// pipeline() pushed the declared variables; set them for this iteration
					if len(x.Pipe.Decl) == 2 {
						ex.setVar(mark, tv{typInt, in.intTerm(i)})
						ex.setVar(mark+1, ev)
					} else {
						ex.setVar(mark, ev)
					}
				}
				inner := len(ex.vars)
				ex.walk(ev, x.List)
				ex.vars = ex.vars[:inner]
				count++
			}
		}
		if count == 0 && x.ElseList != nil {
			ex.walk(dot, x.ElseList)
		}
		ex.vars = ex.vars[:mark]
	default:
		in.unsupported(fmt.Sprintf("template node %T", n))
	}
}

func (ex *tmplExec) setVar(i int, v tv) {
	if i < len(ex.vars) {
		ex.vars[i].val = v
	}
}

// norm unwraps interface-typed values to their dynamic type.
func (ex *tmplExec) norm(x tv) tv {
	for x.t != nil {
		if _, ok := x.t.Underlying().(*types.Interface); !ok {
			break
		}
		iv := x.v.(IfaceV)
		x = tv{iv.t, iv.v}
	}
	return x
}

func (ex *tmplExec) pipeline(dot tv, p *parse.PipeNode) tv {
	var val tv
	have := false
	for _, cmd := range p.Cmds {
		val = ex.command(dot, cmd, val, have)
		have = true
	}
	for _, d := range p.Decl {
		ex.vars = append(ex.vars, tmplVar{d.Ident[0], val})
	}
	return val
}

func (ex *tmplExec) command(dot tv, cmd *parse.CommandNode, final tv, haveFinal bool) tv {
	in := ex.in
	first := cmd.Args[0]
	switch x := first.(type) {
	case *parse.FieldNode:
		return ex.fieldChain(dot, x.Ident, cmd.Args[1:], dot, final, haveFinal)
	case *parse.VariableNode:
		v := ex.lookupVar(x.Ident[0])
		if len(x.Ident) == 1 {
			ex.noArgs(cmd, haveFinal)
			return v
		}
		return ex.fieldChain(v, x.Ident[1:], cmd.Args[1:], dot, final, haveFinal)
	case *parse.IdentifierNode:
		return ex.callFunc(dot, x.Ident, cmd.Args[1:], final, haveFinal)
	case *parse.PipeNode:
		ex.noArgs(cmd, haveFinal)
		return ex.pipeline(dot, x)
	case *parse.DotNode:
		ex.noArgs(cmd, haveFinal)
		return dot
	case *parse.NumberNode:
		ex.noArgs(cmd, haveFinal)
		if x.IsInt {
			return tv{typInt, in.intTerm(int(x.Int64))}
		}
	case *parse.StringNode:
		ex.noArgs(cmd, haveFinal)
		return tv{typString, in.mkStr(x.Text)}
	case *parse.BoolNode:
		ex.noArgs(cmd, haveFinal)
		return tv{typBool, in.tt.Bool(x.True)}
	case *parse.NilNode:
		in.unsupported("template nil command")
	}
	in.unsupported(fmt.Sprintf("template command %T", first))
	return tv{}
}

func (ex *tmplExec) noArgs(cmd *parse.CommandNode, haveFinal bool) {
	if len(cmd.Args) > 1 || haveFinal {
		ex.in.unsupported("template: arguments to a non-function")
	}
}

func (ex *tmplExec) lookupVar(name string) tv {
	for i := len(ex.vars) - 1; i >= 0; i-- {
		if ex.vars[i].name == name {
			return ex.vars[i].val
		}
	}
	ex.in.unsupported("template: undefined variable " + name)
	return tv{}
}

func (ex *tmplExec) arg(dot tv, n parse.Node) tv {
	in := ex.in
	switch x := n.(type) {
	case *parse.DotNode:
		return dot
	case *parse.FieldNode:
		return ex.fieldChain(dot, x.Ident, nil, dot, tv{}, false)
	case *parse.VariableNode:
		v := ex.lookupVar(x.Ident[0])
		if len(x.Ident) == 1 {
			return v
		}
		return ex.fieldChain(v, x.Ident[1:], nil, dot, tv{}, false)
	case *parse.PipeNode:
		return ex.pipeline(dot, x)
	case *parse.NumberNode:
		if x.IsInt {
			return tv{typInt, in.intTerm(int(x.Int64))}
		}
	case *parse.StringNode:
		return tv{typString, in.mkStr(x.Text)}
	case *parse.BoolNode:
		return tv{typBool, in.tt.Bool(x.True)}
	case *parse.IdentifierNode:
		return ex.callFunc(dot, x.Ident, nil, tv{}, false)
	}
	in.unsupported(fmt.Sprintf("template argument %T", n))
	return tv{}
}

// fieldChain evaluates recv.A.B...; the last element may be a method taking args.
func (ex *tmplExec) fieldChain(recv tv, idents []string, args []parse.Node, dot tv, final tv, haveFinal bool) tv {
	in := ex.in
	cur := ex.norm(recv)
	for i, name := range idents {
		last := i == len(idents)-1
		if cur.t == nil {
			in.unsupported("template: nil pointer evaluating ." + name)
		}
		// method?
		if m := in.lookupMethod(cur.t, nil, name); m != nil {
			var avs []tv
			if last {
				for _, a := range args {
					avs = append(avs, ex.arg(dot, a))
				}
				if haveFinal {
					avs = append(avs, final)
				}
			}
			cur = ex.invoke(m, m.Signature, append([]tv{cur}, avs...), nil, true)
			continue
		}
		// field of struct / pointer to struct
		base := cur
		if pt, ok := base.t.Underlying().(*types.Pointer); ok {
			p := base.v.(PtrV)
			if p.isNil() {
				in.unsupported("template: nil pointer evaluating ." + name)
			}
			base = tv{pt.Elem(), p.load()}
		}
		st, ok := base.t.Underlying().(*types.Struct)
		if !ok {
			in.unsupported("template: can't evaluate field " + name + " in type " + cur.t.String())
		}
		found := false
		for fi := 0; fi < st.NumFields(); fi++ {
			if st.Field(fi).Name() == name {
				if !st.Field(fi).Exported() {
					in.unsupported("template: unexported field " + name)
				}
				cur = ex.norm(tv{st.Field(fi).Type(), base.v.(*StructV).f[fi]})
				found = true
				break
			}
		}
		if !found {
			in.unsupported("template: can't evaluate field " + name + " in type " + cur.t.String())
		}
		if last && (len(args) > 0 || haveFinal) {
			in.unsupported("template: field with arguments")
		}
	}
	return cur
}

func (ex *tmplExec) callFunc(dot tv, name string, args []parse.Node, final tv, haveFinal bool) tv {
	in := ex.in
	if (name == "and" || name == "or") && !haveFinal && len(args) > 0 {
		// text/template (Go >= 1.18): arguments are evaluated left to right and evaluation stops at the
		// first empty (and) / non-empty (or) one, which is the result; otherwise the last argument
		if _, user := ex.st.funcs[name]; !user {
			var av tv
			for i, a := range args {
				av = ex.arg(dot, a)
				if i == len(args)-1 {
					break
				}
				if in.branch(ex.truth(av)) == (name == "or") {
					break
				}
			}
			return av
		}
	}
	var avs []tv
	for _, a := range args {
		avs = append(avs, ex.arg(dot, a))
	}
	if haveFinal {
		avs = append(avs, final)
	}
	switch name {
	case "_html_template_htmlescaper":
		return tv{typString, ex.escape(avs, false)}
	case "_html_template_attrescaper":
		return tv{typString, ex.escape(avs, true)}
	case "_html_template_htmlnamefilter":
		// attribute names: a value typed template.HTMLAttr is trusted and passes through
		if len(avs) == 1 && avs[0].t != nil && typeFullName(avs[0].t) == "html/template.HTMLAttr" {
			return tv{avs[0].t, avs[0].v}
		}
		in.unsupported("template: untyped text in attribute-name position")
	case "not":
		if len(avs) != 1 {
			in.unsupported("template: not with wrong argument count")
		}
		return tv{typBool, in.tt.Not(ex.truth(avs[0]))}
	}
	fv, ok := ex.st.funcs[name]
	if !ok {
		in.unsupported("template function " + name)
	}
	if fv.fn == nil {
		in.goPanicf("runtime error: invalid memory address or nil pointer dereference (nil template function)")
	}
	return ex.invoke(fv.fn, fv.fn.Signature, avs, fv.env, false)
}

func (ex *tmplExec) invoke(fn *ssa.Function, sig *types.Signature, avs []tv, env []Value, method bool) tv {
	in := ex.in
	np := sig.Params().Len()
	off := 0
	var vals []Value
	if method {
		vals = append(vals, avs[0].v)
		off = 1
	}
	if len(avs)-off != np || sig.Variadic() {
		in.unsupported("template: wrong number of arguments for " + fn.String())
	}
	for i := 0; i < np; i++ {
		pt := sig.Params().At(i).Type()
		a := avs[i+off]
		if _, isIface := pt.Underlying().(*types.Interface); isIface {
			vals = append(vals, IfaceV{t: a.t, v: a.v})
			continue
		}
		if a.t == nil || !types.AssignableTo(a.t, pt) {
			// numeric constants convert
			ab, aok := a.t.Underlying().(*types.Basic)
			pb, pok := pt.Underlying().(*types.Basic)
			if aok && pok && ab.Info()&types.IsInteger != 0 && pb.Info()&types.IsInteger != 0 {
				ps, _, _ := basicSort(pb)
				_, asg, _ := basicSort(ab)
				vals = append(vals, in.tt.Resize(a.v.(*Term), ps, asg))
				continue
			}
			in.unsupported(fmt.Sprintf("template: argument of type %v for parameter of type %v", a.t, pt))
		}
		vals = append(vals, a.v)
	}
	r := in.callFn(fn, vals, env)
	switch sig.Results().Len() {
	case 1:
		return ex.norm(tv{sig.Results().At(0).Type(), r})
	case 2:
		tup := r.(TupleV)
		if e := tup[1].(IfaceV); e.t != nil {
			in.unsupported("template function returned an error")
		}
		return ex.norm(tv{sig.Results().At(0).Type(), tup[0]})
	}
	in.unsupported("template function with unsupported result count")
	return tv{}
}

func typeFullName(t types.Type) string {
	if n, ok := t.(*types.Named); ok && n.Obj().Pkg() != nil {
		return n.Obj().Pkg().Path() + "." + n.Obj().Name()
	}
	return t.String()
}

// escape models htmlEscaper / attrEscaper for a single argument of string kind.
func (ex *tmplExec) escape(avs []tv, attr bool) StrV {
	in := ex.in
	if len(avs) != 1 || avs[0].t == nil {
		in.unsupported("template escaper with unusual arguments")
	}
	a := avs[0]
	var s StrV
	b, ok := a.t.Underlying().(*types.Basic)
	switch {
	case ok && b.Info()&types.IsString != 0:
		s = a.v.(StrV)
		switch typeFullName(a.t) {
		case "html/template.HTML":
			if !attr {
				return s // trusted HTML passes through in element content
			}
			in.unsupported("template.HTML in attribute context")
		case "html/template.CSS", "html/template.JS", "html/template.JSStr", "html/template.URL", "html/template.Srcset":
			// not HTML content: escaped like a plain string
		}
	case ok && b.Info()&types.IsInteger != 0:
		bs, ok := in.fmtOperand(IfaceV{t: a.t, v: a.v}, 'v', false)
		if !ok {
			in.unsupported("template escaper on integer")
		}
		s = StrV{b: bs}
	case ok && b.Info()&types.IsBoolean != 0:
		bs, _ := in.fmtOperand(IfaceV{t: a.t, v: a.v}, 'v', false)
		s = StrV{b: bs}
	default:
		in.unsupported("template escaper on value of type " + a.t.String())
	}
	return in.htmlTemplateEscape(s)
}

// htmlTemplateEscape: html/template's htmlReplacer with htmlReplacementTable (badRunes=true): exact per byte.
func (in *Interp) htmlTemplateEscape(s StrV) StrV {
	var out []*Term
	eq := func(b *Term, c byte) bool { return in.branch(in.tt.Bin(OpEq, b, in.tt.b8[c])) }
	for _, b := range s.b {
		switch {
		case eq(b, 0):
			out = append(out, in.mkStr("\uFFFD").b...)
		case eq(b, '"'):
			out = append(out, in.mkStr("&#34;").b...)
		case eq(b, '&'):
			out = append(out, in.mkStr("&amp;").b...)
		case eq(b, '\''):
			out = append(out, in.mkStr("&#39;").b...)
		case eq(b, '+'):
			out = append(out, in.mkStr("&#43;").b...)
		case eq(b, '<'):
			out = append(out, in.mkStr("&lt;").b...)
		case eq(b, '>'):
			out = append(out, in.mkStr("&gt;").b...)
		default:
			out = append(out, b)
		}
	}
	return StrV{b: out}
}

func (ex *tmplExec) print(x tv) {
	in := ex.in
	if x.t == nil {
		ex.write(in.mkStr("<no value>").b)
		return
	}
	bs, ok := in.fmtOperand(IfaceV{t: x.t, v: x.v}, 'v', false)
	if !ok {
		in.unsupported("template: printing value of type " + x.t.String())
	}
	ex.write(bs)
}
