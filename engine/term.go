package main

// Terms: hash-consed QF_BV (+Bool, +uninterpreted functions over BV) expressions.

import (
	"fmt"
	"sort"
	"strings"
)

type Op uint8

const (
	OpConst Op = iota
	OpVar
	OpAdd
	OpSub
	OpMul
	OpUDiv
	OpSDiv
	OpURem
	OpSRem
	OpAnd
	OpOr
	OpXor
	OpShl
	OpLShr
	OpAShr
	OpNot // bvnot
	OpNeg
	OpEq
	OpUlt
	OpSlt
	OpUle
	OpSle
	OpBAnd // boolean and (n-ary)
	OpBOr
	OpBNot
	OpIte
	OpZExt
	OpSExt
	OpTrunc
	OpUF // uninterpreted function; name = function name, sort = result width
)

var opSMT = map[Op]string{
	OpAdd: "bvadd", OpSub: "bvsub", OpMul: "bvmul", OpUDiv: "bvudiv", OpSDiv: "bvsdiv",
	OpURem: "bvurem", OpSRem: "bvsrem", OpAnd: "bvand", OpOr: "bvor", OpXor: "bvxor",
	OpShl: "bvshl", OpLShr: "bvlshr", OpAShr: "bvashr", OpNot: "bvnot", OpNeg: "bvneg",
	OpEq: "=", OpUlt: "bvult", OpSlt: "bvslt", OpUle: "bvule", OpSle: "bvsle",
	OpBAnd: "and", OpBOr: "or", OpBNot: "not", OpIte: "ite",
}

// Sort: 0 = Bool, otherwise bit-vector width.
type Sort uint8

type Term struct {
	op   Op
	sort Sort
	val  uint64 // OpConst: value (bool: 0/1); OpZExt/OpSExt/OpTrunc: unused
	name string // OpVar, OpUF
	args []*Term
	id   int
	// domain information for variables (nil = full)
	dom *Domain
}

// Domain of a variable: either a bitset (8-bit vars) or signed interval.
type Domain struct {
	bits   [4]uint64 // for sort 8
	lo, hi int64     // for wider sorts (signed interval)
	isBits bool
}

func (d *Domain) has(v uint64) bool {
	if d.isBits {
		return d.bits[(v>>6)&3]&(1<<(v&63)) != 0
	}
	return int64(v) >= d.lo && int64(v) <= d.hi
}

type tkey struct {
	op         Op
	sort       Sort
	n          uint8
	val        uint64
	name       string
	a0, a1, a2 int
}

type TermTable struct {
	tab  map[string]*Term
	ftab map[tkey]*Term
	next int
	vars map[string]*Term
	ufs  map[string]*UFDecl
	tT   *Term
	tF   *Term
	b8   [256]*Term
}

type UFDecl struct {
	name  string
	args  []Sort
	res   Sort
	eval  func(args []uint64) uint64
	arity int
}

func NewTermTable() *TermTable {
	tt := &TermTable{tab: map[string]*Term{}, ftab: map[tkey]*Term{}, vars: map[string]*Term{}, ufs: map[string]*UFDecl{}}
	tt.tT = tt.mk(&Term{op: OpConst, sort: 0, val: 1})
	tt.tF = tt.mk(&Term{op: OpConst, sort: 0, val: 0})
	for i := 0; i < 256; i++ {
		tt.b8[i] = tt.mk(&Term{op: OpConst, sort: 8, val: uint64(i)})
	}
	return tt
}

func (tt *TermTable) key(t *Term) string {
	var sb strings.Builder
	fmt.Fprintf(&sb, "%d:%d:%d:%s", t.op, t.sort, t.val, t.name)
	for _, a := range t.args {
		fmt.Fprintf(&sb, ",%d", a.id)
	}
	return sb.String()
}

func (tt *TermTable) mk(t *Term) *Term {
	if len(t.args) <= 3 {
		k := tkey{op: t.op, sort: t.sort, n: uint8(len(t.args)), val: t.val, name: t.name}
		switch len(t.args) {
		case 3:
			k.a2 = t.args[2].id
			fallthrough
		case 2:
			k.a1 = t.args[1].id
			fallthrough
		case 1:
			k.a0 = t.args[0].id
		}
		if e, ok := tt.ftab[k]; ok {
			return e
		}
		tt.next++
		t.id = tt.next
		tt.ftab[k] = t
		return t
	}
	k := tt.key(t)
	if e, ok := tt.tab[k]; ok {
		return e
	}
	tt.next++
	t.id = tt.next
	tt.tab[k] = t
	return t
}

func mask(s Sort) uint64 {
	if s >= 64 {
		return ^uint64(0)
	}
	if s == 0 {
		return 1
	}
	return (uint64(1) << s) - 1
}

func signExt(v uint64, s Sort) int64 {
	if s >= 64 {
		return int64(v)
	}
	sh := 64 - uint(s)
	return int64(v<<sh) >> sh
}

func (tt *TermTable) Const(s Sort, v uint64) *Term {
	v &= mask(s)
	if s == 8 {
		return tt.b8[v]
	}
	if s == 0 {
		if v != 0 {
			return tt.tT
		}
		return tt.tF
	}
	return tt.mk(&Term{op: OpConst, sort: s, val: v})
}

func (tt *TermTable) Bool(b bool) *Term {
	if b {
		return tt.tT
	}
	return tt.tF
}

func (tt *TermTable) Var(name string, s Sort, dom *Domain) *Term {
	if v, ok := tt.vars[name]; ok {
		if v.sort != s {
			panic(engineErr{kind: "HARNESS", msg: fmt.Sprintf("variable %s redeclared with different sort", name)})
		}
		if !sameDomain(v.dom, dom) {
			panic(engineErr{kind: "HARNESS", msg: fmt.Sprintf("variable %s redeclared with a different domain (use distinct names)", name)})
		}
		return v
	}
	t := tt.mk(&Term{op: OpVar, sort: s, name: name})
	t.dom = dom
	tt.vars[name] = t
	return t
}

func (t *Term) IsConst() bool { return t.op == OpConst }
func (t *Term) IsTrue() bool  { return t.op == OpConst && t.sort == 0 && t.val == 1 }
func (t *Term) IsFalse() bool { return t.op == OpConst && t.sort == 0 && t.val == 0 }

// signed range of a term when cheaply known
func (tt *TermTable) rangeOf(t *Term) (lo, hi int64, ok bool) {
	switch t.op {
	case OpConst:
		v := signExt(t.val, t.sort)
		return v, v, true
	case OpVar:
		if t.dom != nil && !t.dom.isBits {
			return t.dom.lo, t.dom.hi, true
		}
		if t.dom != nil && t.dom.isBits {
			lo, hi = 256, -1
			for v := 0; v < 256; v++ {
				if t.dom.has(uint64(v)) {
					if int64(v) < lo {
						lo = int64(v)
					}
					hi = int64(v)
				}
			}
			if hi >= 0 && t.sort == 8 {
				// as unsigned byte; signed view only valid if hi<128
				if hi < 128 {
					return lo, hi, true
				}
			}
		}
	case OpZExt:
		a := t.args[0]
		if a.sort < 63 {
			if a.op == OpVar && a.dom != nil && a.dom.isBits {
				lo, hi = 256, -1
				for v := 0; v < 256; v++ {
					if a.dom.has(uint64(v)) {
						if int64(v) < lo {
							lo = int64(v)
						}
						hi = int64(v)
					}
				}
				if hi >= 0 {
					return lo, hi, true
				}
			}
			return 0, int64(mask(a.sort)), true
		}
	case OpIte:
		l1, h1, ok1 := tt.rangeOf(t.args[1])
		l2, h2, ok2 := tt.rangeOf(t.args[2])
		if ok1 && ok2 {
			if l2 < l1 {
				l1 = l2
			}
			if h2 > h1 {
				h1 = h2
			}
			return l1, h1, true
		}
	case OpAdd:
		if t.sort == 64 {
			l1, h1, ok1 := tt.rangeOf(t.args[0])
			l2, h2, ok2 := tt.rangeOf(t.args[1])
			if ok1 && ok2 && abs64(l1) < 1<<40 && abs64(h1) < 1<<40 && abs64(l2) < 1<<40 && abs64(h2) < 1<<40 {
				return l1 + l2, h1 + h2, true
			}
		}
	case OpSub:
		if t.sort == 64 {
			l1, h1, ok1 := tt.rangeOf(t.args[0])
			l2, h2, ok2 := tt.rangeOf(t.args[1])
			if ok1 && ok2 && abs64(l1) < 1<<40 && abs64(h1) < 1<<40 && abs64(l2) < 1<<40 && abs64(h2) < 1<<40 {
				return l1 - h2, h1 - l2, true
			}
		}
	}
	return 0, 0, false
}

func abs64(x int64) int64 {
	if x < 0 {
		return -x
	}
	return x
}

func evalBin(op Op, s Sort, a, b uint64) (uint64, bool) {
	m := mask(s)
	switch op {
	case OpAdd:
		return (a + b) & m, true
	case OpSub:
		return (a - b) & m, true
	case OpMul:
		return (a * b) & m, true
	case OpUDiv:
		if b == 0 {
			return m, true
		}
		return (a / b) & m, true
	case OpURem:
		if b == 0 {
			return a, true
		}
		return (a % b) & m, true
	case OpSDiv:
		sa, sb := signExt(a, s), signExt(b, s)
		if sb == 0 {
			if sa < 0 {
				return 1, true
			}
			return m, true
		}
		if sb == -1 {
			return uint64(-sa) & m, true
		}
		return uint64(sa/sb) & m, true
	case OpSRem:
		sa, sb := signExt(a, s), signExt(b, s)
		if sb == 0 {
			return a, true
		}
		if sb == -1 {
			return 0, true
		}
		return uint64(sa%sb) & m, true
	case OpAnd:
		return a & b, true
	case OpOr:
		return a | b, true
	case OpXor:
		return (a ^ b) & m, true
	case OpShl:
		if b >= uint64(s) {
			return 0, true
		}
		return (a << b) & m, true
	case OpLShr:
		if b >= uint64(s) {
			return 0, true
		}
		return (a >> b) & m, true
	case OpAShr:
		sa := signExt(a, s)
		if b >= uint64(s) {
			if sa < 0 {
				return m, true
			}
			return 0, true
		}
		return uint64(sa>>b) & m, true
	case OpEq:
		return b2u(a == b), true
	case OpUlt:
		return b2u(a < b), true
	case OpUle:
		return b2u(a <= b), true
	case OpSlt:
		return b2u(signExt(a, s) < signExt(b, s)), true
	case OpSle:
		return b2u(signExt(a, s) <= signExt(b, s)), true
	}
	return 0, false
}

func b2u(b bool) uint64 {
	if b {
		return 1
	}
	return 0
}

// Bin builds a binary bit-vector operation (result sort = operand sort) or comparison (result Bool).
func (tt *TermTable) Bin(op Op, a, b *Term) *Term {
	if a.sort != b.sort {
		panic(fmt.Sprintf("sort mismatch in %v: %d vs %d (%s, %s)", op, a.sort, b.sort, tt.SMT(a), tt.SMT(b)))
	}
	isCmp := op == OpEq || op == OpUlt || op == OpSlt || op == OpUle || op == OpSle
	rs := a.sort
	if isCmp {
		rs = 0
	}
	if a.op == OpConst && b.op == OpConst {
		if a.sort == 0 {
			if op == OpEq {
				return tt.Bool(a.val == b.val)
			}
		} else if v, ok := evalBin(op, a.sort, a.val, b.val); ok {
			return tt.Const(rs, v)
		}
	}
	switch op {
	case OpEq:
		if a == b {
			return tt.tT
		}
		if a.sort == 0 {
			// boolean equality
			if a.IsTrue() {
				return b
			}
			if b.IsTrue() {
				return a
			}
			if a.IsFalse() {
				return tt.Not(b)
			}
			if b.IsFalse() {
				return tt.Not(a)
			}
		}
		// canonical order: const second
		if a.op == OpConst {
			a, b = b, a
		}
		if b.op == OpConst {
			if a.op == OpVar && a.dom != nil && !a.dom.has(domView(a, b.val)) {
				return tt.tF
			}
			if a.op == OpZExt && a.args[0].op == OpVar {
				if b.val > mask(a.args[0].sort) {
					return tt.tF
				}
				return tt.Bin(OpEq, a.args[0], tt.Const(a.args[0].sort, b.val))
			}
			if a.op == OpIte && a.args[1].op == OpConst && a.args[2].op == OpConst {
				// ite(c, k1, k2) == k
				t1 := a.args[1].val == b.val
				t2 := a.args[2].val == b.val
				switch {
				case t1 && t2:
					return tt.tT
				case t1:
					return a.args[0]
				case t2:
					return tt.Not(a.args[0])
				default:
					return tt.tF
				}
			}
			if lo, hi, ok := tt.rangeOf(a); ok {
				v := signExt(b.val, b.sort)
				if v < lo || v > hi {
					return tt.tF
				}
			}
		} else if a.id > b.id {
			a, b = b, a
		}
	case OpSlt, OpSle:
		if a == b {
			return tt.Bool(op == OpSle)
		}
		l1, h1, ok1 := tt.rangeOf(a)
		l2, h2, ok2 := tt.rangeOf(b)
		if ok1 && ok2 {
			if op == OpSlt {
				if h1 < l2 {
					return tt.tT
				}
				if l1 >= h2 {
					return tt.tF
				}
			} else {
				if h1 <= l2 {
					return tt.tT
				}
				if l1 > h2 {
					return tt.tF
				}
			}
		}
	case OpUlt, OpUle:
		if a == b {
			return tt.Bool(op == OpUle)
		}
		if a.sort == 8 {
			l1, h1, ok1 := tt.urange8(a)
			l2, h2, ok2 := tt.urange8(b)
			if ok1 && ok2 {
				if op == OpUlt {
					if h1 < l2 {
						return tt.tT
					}
					if l1 >= h2 {
						return tt.tF
					}
				} else {
					if h1 <= l2 {
						return tt.tT
					}
					if l1 > h2 {
						return tt.tF
					}
				}
			}
		}
	case OpAdd:
		if a.op == OpConst && a.val == 0 {
			return b
		}
		if b.op == OpConst && b.val == 0 {
			return a
		}
		if a.op == OpConst {
			a, b = b, a
		}
		// (x + c1) + c2
		if b.op == OpConst && a.op == OpAdd && a.args[1].op == OpConst {
			return tt.Bin(OpAdd, a.args[0], tt.Const(a.sort, a.args[1].val+b.val))
		}
	case OpSub:
		if b.op == OpConst && b.val == 0 {
			return a
		}
		if a == b {
			return tt.Const(a.sort, 0)
		}
		if b.op == OpConst {
			return tt.Bin(OpAdd, a, tt.Const(a.sort, -b.val))
		}
	case OpMul:
		if a.op == OpConst {
			a, b = b, a
		}
		if b.op == OpConst {
			if b.val == 0 {
				return b
			}
			if b.val == 1 {
				return a
			}
		}
	case OpAnd:
		if a == b {
			return a
		}
	case OpOr:
		if a == b {
			return a
		}
		if a.op == OpConst && a.val == 0 {
			return b
		}
		if b.op == OpConst && b.val == 0 {
			return a
		}
	}
	return tt.mk(&Term{op: op, sort: rs, args: []*Term{a, b}})
}

func domView(v *Term, c uint64) uint64 { return c }

func (tt *TermTable) urange8(t *Term) (lo, hi int64, ok bool) {
	if t.op == OpConst {
		return int64(t.val), int64(t.val), true
	}
	if t.op == OpVar && t.dom != nil && t.dom.isBits {
		lo, hi = 256, -1
		for v := 0; v < 256; v++ {
			if t.dom.has(uint64(v)) {
				if int64(v) < lo {
					lo = int64(v)
				}
				hi = int64(v)
			}
		}
		return lo, hi, hi >= 0
	}
	return 0, 255, true
}

func (tt *TermTable) Not(a *Term) *Term {
	if a.sort != 0 {
		panic("Not on non-bool")
	}
	if a.op == OpConst {
		return tt.Bool(a.val == 0)
	}
	if a.op == OpBNot {
		return a.args[0]
	}
	return tt.mk(&Term{op: OpBNot, sort: 0, args: []*Term{a}})
}

func (tt *TermTable) And(xs ...*Term) *Term {
	var out []*Term
	seen := map[int]bool{}
	for _, x := range xs {
		if x.sort != 0 {
			panic("And on non-bool")
		}
		if x.IsFalse() {
			return tt.tF
		}
		if x.IsTrue() {
			continue
		}
		if x.op == OpBAnd {
			for _, y := range x.args {
				if !seen[y.id] {
					seen[y.id] = true
					out = append(out, y)
				}
			}
			continue
		}
		if !seen[x.id] {
			seen[x.id] = true
			out = append(out, x)
		}
	}
	for _, x := range out {
		if x.op == OpBNot && seen[x.args[0].id] {
			return tt.tF
		}
	}
	if len(out) == 0 {
		return tt.tT
	}
	if len(out) == 1 {
		return out[0]
	}
	sort.Slice(out, func(i, j int) bool { return out[i].id < out[j].id })
	return tt.mk(&Term{op: OpBAnd, sort: 0, args: out})
}

func (tt *TermTable) Or(xs ...*Term) *Term {
	var out []*Term
	seen := map[int]bool{}
	for _, x := range xs {
		if x.sort != 0 {
			panic("Or on non-bool")
		}
		if x.IsTrue() {
			return tt.tT
		}
		if x.IsFalse() {
			continue
		}
		if x.op == OpBOr {
			for _, y := range x.args {
				if !seen[y.id] {
					seen[y.id] = true
					out = append(out, y)
				}
			}
			continue
		}
		if !seen[x.id] {
			seen[x.id] = true
			out = append(out, x)
		}
	}
	for _, x := range out {
		if x.op == OpBNot && seen[x.args[0].id] {
			return tt.tT
		}
	}
	if len(out) == 0 {
		return tt.tF
	}
	if len(out) == 1 {
		return out[0]
	}
	sort.Slice(out, func(i, j int) bool { return out[i].id < out[j].id })
	return tt.mk(&Term{op: OpBOr, sort: 0, args: out})
}

func (tt *TermTable) Ite(c, a, b *Term) *Term {
	if c.IsTrue() {
		return a
	}
	if c.IsFalse() {
		return b
	}
	if a == b {
		return a
	}
	if a.sort != b.sort {
		panic("ite sort mismatch")
	}
	if a.sort == 0 {
		if a.IsTrue() && b.IsFalse() {
			return c
		}
		if a.IsFalse() && b.IsTrue() {
			return tt.Not(c)
		}
	}
	return tt.mk(&Term{op: OpIte, sort: a.sort, args: []*Term{c, a, b}})
}

func (tt *TermTable) Un(op Op, a *Term) *Term {
	if a.op == OpConst {
		switch op {
		case OpNot:
			return tt.Const(a.sort, ^a.val)
		case OpNeg:
			return tt.Const(a.sort, -a.val)
		}
	}
	return tt.mk(&Term{op: op, sort: a.sort, args: []*Term{a}})
}

// Resize converts a BV term to another width (signed = sign-extend when widening).
func (tt *TermTable) Resize(a *Term, to Sort, signed bool) *Term {
	if a.sort == to {
		return a
	}
	if a.sort == 0 {
		panic("resize of bool")
	}
	if a.op == OpConst {
		if to > a.sort && signed {
			return tt.Const(to, uint64(signExt(a.val, a.sort)))
		}
		return tt.Const(to, a.val)
	}
	if to < a.sort {
		if (a.op == OpZExt || a.op == OpSExt) && a.args[0].sort == to {
			return a.args[0]
		}
		return tt.mk(&Term{op: OpTrunc, sort: to, args: []*Term{a}})
	}
	if signed {
		return tt.mk(&Term{op: OpSExt, sort: to, args: []*Term{a}})
	}
	return tt.mk(&Term{op: OpZExt, sort: to, args: []*Term{a}})
}

func (tt *TermTable) UF(name string, res Sort, args []*Term) *Term {
	d := tt.ufs[name]
	if d == nil {
		panic("undeclared UF " + name)
	}
	allc := true
	for _, a := range args {
		if a.op != OpConst {
			allc = false
		}
	}
	if allc && d.eval != nil {
		vs := make([]uint64, len(args))
		for i, a := range args {
			vs[i] = a.val
		}
		return tt.Const(res, d.eval(vs))
	}
	return tt.mk(&Term{op: OpUF, sort: res, name: name, args: args})
}

func (tt *TermTable) DeclareUF(name string, args []Sort, res Sort, eval func([]uint64) uint64) {
	if _, ok := tt.ufs[name]; ok {
		return
	}
	tt.ufs[name] = &UFDecl{name: name, args: args, res: res, eval: eval}
}

func sortSMT(s Sort) string {
	if s == 0 {
		return "Bool"
	}
	return fmt.Sprintf("(_ BitVec %d)", s)
}

func smtName(n string) string {
	return "|" + strings.NewReplacer("|", "_", "\\", "_").Replace(n) + "|"
}

func constSMT(s Sort, v uint64) string {
	if s == 0 {
		if v != 0 {
			return "true"
		}
		return "false"
	}
	if s%4 == 0 {
		return fmt.Sprintf("#x%0*x", int(s/4), v&mask(s))
	}
	return fmt.Sprintf("(_ bv%d %d)", v&mask(s), s)
}

// SMT renders a term as SMT-LIB2 with let-free DAG expansion (terms are small);
// shared sub-terms are emitted via named definitions by the solver layer when large.
func (tt *TermTable) SMT(t *Term) string {
	var sb strings.Builder
	tt.smt(&sb, t)
	return sb.String()
}

func (tt *TermTable) smt(sb *strings.Builder, t *Term) {
	switch t.op {
	case OpConst:
		sb.WriteString(constSMT(t.sort, t.val))
	case OpVar:
		sb.WriteString(smtName(t.name))
	case OpZExt:
		fmt.Fprintf(sb, "((_ zero_extend %d) ", int(t.sort)-int(t.args[0].sort))
		tt.smt(sb, t.args[0])
		sb.WriteString(")")
	case OpSExt:
		fmt.Fprintf(sb, "((_ sign_extend %d) ", int(t.sort)-int(t.args[0].sort))
		tt.smt(sb, t.args[0])
		sb.WriteString(")")
	case OpTrunc:
		fmt.Fprintf(sb, "((_ extract %d 0) ", int(t.sort)-1)
		tt.smt(sb, t.args[0])
		sb.WriteString(")")
	case OpUF:
		if len(t.args) == 0 {
			sb.WriteString(smtName(t.name))
			return
		}
		sb.WriteString("(" + smtName(t.name))
		for _, a := range t.args {
			sb.WriteString(" ")
			tt.smt(sb, a)
		}
		sb.WriteString(")")
	default:
		sb.WriteString("(" + opSMT[t.op])
		for _, a := range t.args {
			sb.WriteString(" ")
			tt.smt(sb, a)
		}
		sb.WriteString(")")
	}
}

// Vars collects the variables and UFs of a term.
func (tt *TermTable) Collect(t *Term, vars map[string]*Term, ufs map[string]bool, seen map[int]bool) {
	if seen[t.id] {
		return
	}
	seen[t.id] = true
	if t.op == OpVar {
		vars[t.name] = t
	}
	if t.op == OpUF {
		ufs[t.name] = true
	}
	for _, a := range t.args {
		tt.Collect(a, vars, ufs, seen)
	}
}

// Eval evaluates a term under a model (missing variables default to 0).
func (tt *TermTable) Eval(t *Term, model map[string]uint64) uint64 {
	cache := map[int]uint64{}
	return tt.eval(t, model, cache)
}

func (tt *TermTable) eval(t *Term, model map[string]uint64, cache map[int]uint64) uint64 {
	if v, ok := cache[t.id]; ok {
		return v
	}
	var r uint64
	switch t.op {
	case OpConst:
		r = t.val
	case OpVar:
		r = model[t.name] & mask(t.sort)
	case OpBAnd:
		r = 1
		for _, a := range t.args {
			if tt.eval(a, model, cache) == 0 {
				r = 0
				break
			}
		}
	case OpBOr:
		r = 0
		for _, a := range t.args {
			if tt.eval(a, model, cache) != 0 {
				r = 1
				break
			}
		}
	case OpBNot:
		r = 1 - tt.eval(t.args[0], model, cache)
	case OpIte:
		if tt.eval(t.args[0], model, cache) != 0 {
			r = tt.eval(t.args[1], model, cache)
		} else {
			r = tt.eval(t.args[2], model, cache)
		}
	case OpZExt:
		r = tt.eval(t.args[0], model, cache)
	case OpSExt:
		r = uint64(signExt(tt.eval(t.args[0], model, cache), t.args[0].sort)) & mask(t.sort)
	case OpTrunc:
		r = tt.eval(t.args[0], model, cache) & mask(t.sort)
	case OpNot:
		r = ^tt.eval(t.args[0], model, cache) & mask(t.sort)
	case OpNeg:
		r = (-tt.eval(t.args[0], model, cache)) & mask(t.sort)
	case OpUF:
		d := tt.ufs[t.name]
		vs := make([]uint64, len(t.args))
		for i, a := range t.args {
			vs[i] = tt.eval(a, model, cache)
		}
		if d.eval == nil {
			panic("UF without evaluator: " + t.name)
		}
		r = d.eval(vs) & mask(t.sort)
	default:
		a := tt.eval(t.args[0], model, cache)
		b := tt.eval(t.args[1], model, cache)
		if t.op == OpEq && t.args[0].sort == 0 {
			r = b2u(a == b)
		} else {
			v, ok := evalBin(t.op, t.args[0].sort, a, b)
			if !ok {
				panic(fmt.Sprintf("eval: unhandled op %d", t.op))
			}
			r = v
		}
	}
	cache[t.id] = r
	return r
}

func sameDomain(a, b *Domain) bool {
	if a == nil || b == nil {
		return a == nil && b == nil
	}
	return *a == *b
}
