package main

// Cooperative scheduler for vfPar regions: every thread body runs in its own goroutine, exactly one of
// them holds the token at any time, and control may change hands only at synchronisation operations
// (mutex/RWMutex/Once/atomic operations, template library calls, thread start and end). Which enabled
// thread continues is a choice fork, so all schedules at that granularity - up to a bound on the
// number of preemptions - are explored by the ordinary path enumeration. Accesses between two
// synchronisation points execute atomically; the data-race analysis over the logged events (race.go)
// discharges exactly that assumption.

import (
	"fmt"
	"sync"
)

type thr struct {
	id      int
	wake    chan struct{}
	done    bool
	started bool
	blocked string // mutex key the thread waits for, or ""
	cond    func() bool
	stack   []string
	depth   int
}

type sched struct {
	threads  []*thr
	cur      int
	preempts int
	abort    bool
	err      interface{}
	mainCh   chan struct{}
	wg       sync.WaitGroup
}

type threadAbort struct{}

func (in *Interp) mutexKey(p PtrV) string {
	return fmt.Sprintf("%d/%s", p.obj.id, pathKey(p.path))
}

func (in *Interp) mutexFree(key string) bool { return !in.heldMutex[key] }

func (s *sched) enabled(in *Interp) []*thr {
	var out []*thr
	for _, t := range s.threads {
		if t.done {
			continue
		}
		if t.cond != nil {
			if !t.cond() {
				continue
			}
		} else if t.blocked != "" && !in.mutexFree(t.blocked) {
			continue
		}
		out = append(out, t)
	}
	return out
}

// blockOnCond parks the running thread until cond holds.
func (in *Interp) blockOnCond(cond func() bool) {
	s := in.sched
	me := s.threads[s.cur]
	for !cond() {
		me.cond = cond
		en := s.enabled(in)
		if len(en) == 0 {
			me.cond = nil
			panic(goPanic{msg: "fatal error: all goroutines are asleep - deadlock!", fn: "sync"})
		}
		next := en[in.choice(len(en))]
		in.switchTo(me, next)
	}
	me.cond = nil
}

// switchTo hands the token from thread me to thread next and waits until me is scheduled again.
func (in *Interp) switchTo(me, next *thr) {
	s := in.sched
	me.stack = append(me.stack[:0], in.stack...)
	me.depth = in.depth
	s.cur = next.id
	in.curThread = next.id + 1
	in.stack = append(in.stack[:0], next.stack...)
	in.depth = next.depth
	next.wake <- struct{}{}
	<-me.wake
	if s.abort {
		panic(threadAbort{})
	}
	in.stack = append(in.stack[:0], me.stack...)
	in.depth = me.depth
	in.curThread = me.id + 1
}

// yield is a scheduling point of the running thread.
func (in *Interp) yield() {
	s := in.sched
	if s == nil || in.runningExtInit > 0 {
		return
	}
	me := s.threads[s.cur]
	en := s.enabled(in)
	if len(en) == 0 {
		return
	}
	meEnabled := false
	for _, t := range en {
		if t == me {
			meEnabled = true
		}
	}
	var opts []*thr
	if meEnabled {
		opts = append(opts, me) // choice 0: no context switch
		if s.preempts < in.cfg.PreemptBound {
			for _, t := range en {
				if t != me {
					opts = append(opts, t)
				}
			}
		}
	} else {
		opts = en
	}
	next := opts[in.choice(len(opts))]
	if next == me {
		return
	}
	if meEnabled {
		s.preempts++
	}
	in.switchTo(me, next)
}

// block parks the running thread until the mutex is free; panics with a deadlock if nobody can run.
func (in *Interp) blockOn(key string) {
	s := in.sched
	me := s.threads[s.cur]
	for !in.mutexFree(key) {
		me.blocked = key
		en := s.enabled(in)
		if len(en) == 0 {
			me.blocked = ""
			panic(goPanic{msg: "fatal error: all goroutines are asleep - deadlock!", fn: "(*sync.Mutex).Lock"})
		}
		next := en[in.choice(len(en))]
		in.switchTo(me, next)
	}
	me.blocked = ""
}

// runParallel executes the bodies as threads under the scheduler.
func (in *Interp) runParallel(bodies []FuncV) {
	if in.sched != nil {
		in.unsupported("nested vfPar")
	}
	s := &sched{mainCh: make(chan struct{}, 1)}
	in.sched = s
	for i := range bodies {
		s.threads = append(s.threads, &thr{id: i, wake: make(chan struct{}, 1)})
	}
	mainStack := append([]string(nil), in.stack...)
	mainDepth := in.depth
	finish := func(t *thr) {
		// called by a thread that has ended (normally or with an error) while holding the token
		t.done = true
		if s.err != nil {
			s.mainCh <- struct{}{}
			return
		}
		en := s.enabled(in)
		if len(en) == 0 {
			// all done, or the rest are blocked for ever
			for _, o := range s.threads {
				if !o.done {
					s.err = goPanic{msg: "fatal error: all goroutines are asleep - deadlock!", fn: "vfPar"}
				}
			}
			s.mainCh <- struct{}{}
			return
		}
		next := en[in.choice(len(en))]
		s.cur = next.id
		in.curThread = next.id + 1
		in.stack = append(in.stack[:0], next.stack...)
		in.depth = next.depth
		next.wake <- struct{}{}
	}
	for i := range bodies {
		t := s.threads[i]
		body := bodies[i]
		t.stack = append([]string(nil), mainStack...)
		t.depth = mainDepth
		s.wg.Add(1)
		go func() {
			defer s.wg.Done()
			<-t.wake
			if s.abort {
				return
			}
			defer func() {
				if r := recover(); r != nil {
					if _, isAbort := r.(threadAbort); isAbort {
						return
					}
					if s.err == nil {
						s.err = r
					}
				}
				if !s.abort {
					defer func() {
						// choice() inside finish may itself raise (path cap etc.)
						if r := recover(); r != nil {
							if s.err == nil {
								s.err = r
							}
							s.mainCh <- struct{}{}
						}
					}()
					finish(t)
				}
			}()
			t.started = true
			in.callFn(body.fn, nil, body.env)
		}()
	}
	// first thread to run
	first := s.threads[in.choice(len(s.threads))]
	s.cur = first.id
	in.curThread = first.id + 1
	first.wake <- struct{}{}
	<-s.mainCh
	// tear down whatever is still parked
	s.abort = true
	for _, t := range s.threads {
		if !t.done {
			select {
			case t.wake <- struct{}{}:
			default:
			}
		}
	}
	s.wg.Wait()
	in.sched = nil
	in.curThread = 0
	in.stack = append(in.stack[:0], mainStack...)
	in.depth = mainDepth
	if s.err != nil {
		panic(s.err)
	}
}
