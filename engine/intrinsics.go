package main

import (
	"sort"
	"encoding/json"
	"html"
	"fmt"
	"go/types"
	"strconv"
	"strings"
	"unicode/utf8"

	"github.com/mattn/go-runewidth"
	"golang.org/x/tools/go/ssa"
)

type intrinsic func(in *Interp, fn *ssa.Function, args []Value) Value

var intrinsics map[string]intrinsic
var vfIntrinsics map[string]intrinsic

func init() {
	intrinsics = map[string]intrinsic{
		"strings.Count":                     iStringsCount,
		"strings.HasSuffix":                 iStringsHasSuffix,
		"strings.HasPrefix":                 iStringsHasPrefix,
		"strings.Split":                     iStringsSplit,
		"strings.Repeat":                    iStringsRepeat,
		"strings.Join":                      iStringsJoin,
		"strings.Replace":                   iStringsReplace,
		"strings.ReplaceAll":                iStringsReplaceAll,
		"strings.ToLower":                   iStringsToLower,
		"strings.EqualFold":                 iStringsEqualFold,
		"bytes.Equal":                       iBytesEqual,
		"(*bytes.Buffer).Write":             iBufWrite,
		"(*bytes.Buffer).WriteString":       iBufWriteString,
		"(*bytes.Buffer).WriteByte":         iBufWriteByte,
		"(*bytes.Buffer).String":            iBufString,
		"(*bytes.Buffer).Len":               iBufLen,
		"fmt.Fprint":                        iFmtFprint,
		"fmt.Fprintln":                      iFmtFprintln,
		"fmt.Fprintf":                       iFmtFprintf,
		"fmt.Sprintf":                       iFmtSprintf,
		"fmt.Errorf":                        iFmtErrorf,
		"github.com/mattn/go-runewidth.StringWidth": iStringWidth,
		"unicode/utf8.RuneCountInString":    iRuneCount,
		"html.EscapeString":                 iHTMLEscape,
		"html.UnescapeString":               iHTMLUnescape,
		"encoding/json.Marshal":             iJSONMarshal,
		"sort.Strings":                      iSortStrings,
		"(*sync.Mutex).Lock":                iMutexLock,
		"(*sync.Mutex).Unlock":              iMutexUnlock,
		"reflect.TypeOf":                    iReflectTypeOf,
		"(*reflect.rtype).Comparable":       iRtypeComparable,
		"(*reflect.rtype).Kind":             iRtypeKind,
		"(*reflect.rtype).String":           iRtypeString,
		"(*reflect.rtype).Name":             iRtypeName,
		"(*reflect.rtype).Elem":             iRtypeElem,
		"(*reflect.rtype).NumField":         iRtypeNumField,
		"(*reflect.rtype).Field":            iRtypeField,
		"(*reflect.rtype).NumMethod":        iRtypeNumMethod,
		"(*reflect.rtype).PkgPath":          iRtypePkgPath,
		"(reflect.Value).Type":              iReflType,
		"(reflect.Value).NumMethod":         iReflNumMethod,
		"(reflect.Value).CanInterface":      iReflCanInterface,
		"(reflect.Value).CanAddr":           iReflCanAddr,
		"(reflect.Kind).String":             iKindString,
		"reflect.ValueOf":                   iReflectValueOf,
		"(reflect.Value).Kind":              iReflKind,
		"(reflect.Value).Elem":              iReflElem,
		"(reflect.Value).FieldByName":       iReflFieldByName,
		"(reflect.Value).Len":               iReflLen,
		"(reflect.Value).Set":               iReflSet,
	}
	vfIntrinsics = map[string]intrinsic{
		"vfInt":         vfInt,
		"vfAnyInt":      vfAnyInt,
		"vfByte":        vfByte,
		"vfBool":        vfBool,
		"vfChoice":      vfChoice,
		"vfString":      vfString,
		"vfStringOf":    vfStringOf,
		"vfRune":        vfRune,
		"vfAssume":      vfAssume,
		"vfAssert":      vfAssert,
		"vfFail":        vfFail,
		"vfReach":       vfReach,
		"vfObserveStr":  vfObserve,
		"vfObserveInt":  vfObserve,
		"vfObserveBool": vfObserve,
		"vfName":        vfName,
		"vfAnd":         vfAnd,
		"vfOr":          vfOr,
		"vfNot":         vfNot,
		"vfImplies":     vfImplies,
		"vfIteInt":      vfIteInt,
		"vfConcrete":    vfConcrete,
		"vfThread":      vfThread,
		"vfFresh": func(in *Interp, fn *ssa.Function, a []Value) Value { return a[0] },
		"vfRunewidthEastAsian": func(in *Interp, fn *ssa.Function, a []Value) Value {
			in.setRwEastAsian(a[0].(*Term))
			return nil
		},
		"vfStrEq":       vfStrEq,
		"vfTag":         vfTag,
		"vfPar":         vfPar,
		"vfTier":        vfTier,
	}
}

func (in *Interp) lookupIntrinsic(fn *ssa.Function) intrinsic {
	name := fn.Name()
	if strings.HasPrefix(name, "vf") && fn.Pkg != nil && in.ld.isModulePkg(fn.Pkg.Pkg) {
		if h, ok := vfIntrinsics[name]; ok {
			return h
		}
	}
	if fn.Pkg != nil && in.ld.isModulePkg(fn.Pkg.Pkg) {
		return nil
	}
	if h, ok := intrinsics[fn.String()]; ok {
		return h
	}
	if strings.HasPrefix(fn.String(), "(*sync/atomic.Pointer[") {
		// instantiations of the generic atomic.Pointer[T]: the pointer lives in the struct's last field
		mname := fn.Name()
		if i := strings.IndexByte(mname, '['); i >= 0 {
			mname = mname[:i]
		}
		switch mname {
		case "Load":
			return iAtomicPointerLoad
		case "Store":
			return iAtomicPointerStore
		case "Swap":
			return iAtomicPointerSwap
		case "CompareAndSwap":
			return iAtomicPointerCAS
		}
	}
	if h := templateIntrinsic(fn); h != nil {
		return h
	}
	if h, ok := unisegIntrinsics[fn.String()]; ok {
		return h
	}
	if fn.Pkg != nil && fn.Name() != "init" {
		pp := fn.Pkg.Pkg.Path()
		if pp == "reflect" || pp == "internal/reflectlite" || pp == "unsafe" || strings.HasPrefix(pp, "github.com/") || pp == "os" || pp == "runtime" || pp == "syscall" || pp == "time" {
			name := fn.String()
			return func(in *Interp, fn *ssa.Function, args []Value) Value {
				in.unsupported("library function outside the model: " + name)
				return nil
			}
		}
	}
	if fn.Name() == "init" && fn.Pkg != nil && !in.ld.isModulePkg(fn.Pkg.Pkg) && fn.Signature.Recv() == nil {
		return func(in *Interp, fn *ssa.Function, args []Value) Value { return nil }
	}
	return nil
}

// ---------- helpers

func (in *Interp) concreteStr(v Value, what string) string {
	s, ok := concreteString(v.(StrV))
	if !ok {
		in.unsupported("symbolic string where concrete required: " + what)
	}
	return s
}

func (in *Interp) intTerm(v int) *Term { return in.tt.Const(64, uint64(int64(v))) }

func (in *Interp) strSlice(ss []StrV) SliceV {
	e := make([]Value, len(ss))
	for i, s := range ss {
		e[i] = s
	}
	st := types.Typ[types.String]
	arr := in.newObj(types.NewArray(st, int64(len(e))), &ArrayV{e: e}, "[]string")
	return SliceV{arr: arr, len: len(e), cap: len(e)}
}

func (in *Interp) byteSlice(bs []*Term) SliceV {
	e := make([]Value, len(bs))
	for i, b := range bs {
		e[i] = b
	}
	arr := in.newObj(types.NewArray(types.Typ[types.Uint8], int64(len(e))), &ArrayV{e: e}, "[]byte")
	return SliceV{arr: arr, len: len(e), cap: len(e)}
}

func (in *Interp) bytesOf(v Value) []*Term {
	switch x := v.(type) {
	case StrV:
		return x.b
	case SliceV:
		es := in.sliceElems(x)
		b := make([]*Term, len(es))
		for i, e := range es {
			b[i] = e.(*Term)
		}
		return b
	}
	in.unsupported(fmt.Sprintf("bytesOf %T", v))
	return nil
}

// matchAt returns the term "s[i:i+len(pat)] == pat".
func (in *Interp) matchAt(s []*Term, i int, pat string) *Term {
	cs := make([]*Term, len(pat))
	for j := 0; j < len(pat); j++ {
		cs[j] = in.tt.Bin(OpEq, s[i+j], in.tt.b8[pat[j]])
		if cs[j].IsFalse() {
			return in.tt.tF
		}
	}
	return in.tt.And(cs...)
}

// findAll forks on each candidate position and returns the non-overlapping match offsets.
func (in *Interp) findAll(s []*Term, pat string, limit int) []int {
	var out []int
	if len(pat) == 0 {
		in.unsupported("empty separator/pattern on symbolic string")
	}
	for i := 0; i+len(pat) <= len(s); {
		if limit >= 0 && len(out) >= limit {
			break
		}
		if in.branch(in.matchAt(s, i, pat)) {
			out = append(out, i)
			i += len(pat)
		} else {
			i++
		}
	}
	return out
}

var errNilIface = IfaceV{}

// ---------- strings

func iStringsCount(in *Interp, fn *ssa.Function, a []Value) Value {
	s := a[0].(StrV)
	sep := in.concreteStr(a[1], "strings.Count separator")
	if sep == "" {
		cs, ok := concreteString(s)
		if !ok {
			in.unsupported("strings.Count with empty separator on symbolic string")
		}
		return in.intTerm(utf8.RuneCountInString(cs) + 1)
	}
	if len(sep) == 1 {
		// non-forking: sum of ite
		sum := in.tt.Const(64, 0)
		for _, b := range s.b {
			sum = in.tt.Bin(OpAdd, sum, in.tt.Ite(in.tt.Bin(OpEq, b, in.tt.b8[sep[0]]), in.tt.Const(64, 1), in.tt.Const(64, 0)))
		}
		return sum
	}
	return in.intTerm(len(in.findAll(s.b, sep, -1)))
}

func iStringsHasSuffix(in *Interp, fn *ssa.Function, a []Value) Value {
	s, suf := a[0].(StrV), a[1].(StrV)
	if len(suf.b) > len(s.b) {
		return in.tt.tF
	}
	return in.valueEq(StrV{b: s.b[len(s.b)-len(suf.b):]}, suf)
}

func iStringsHasPrefix(in *Interp, fn *ssa.Function, a []Value) Value {
	s, p := a[0].(StrV), a[1].(StrV)
	if len(p.b) > len(s.b) {
		return in.tt.tF
	}
	return in.valueEq(StrV{b: s.b[:len(p.b)]}, p)
}

func iStringsSplit(in *Interp, fn *ssa.Function, a []Value) Value {
	s := a[0].(StrV)
	sep := in.concreteStr(a[1], "strings.Split separator")
	if sep == "" {
		cs, ok := concreteString(s)
		if !ok {
			in.unsupported("strings.Split with empty separator on symbolic string")
		}
		var parts []StrV
		for _, p := range strings.Split(cs, "") {
			parts = append(parts, in.mkStr(p))
		}
		return in.strSlice(parts)
	}
	offs := in.findAll(s.b, sep, -1)
	var parts []StrV
	prev := 0
	for _, o := range offs {
		parts = append(parts, StrV{b: s.b[prev:o]})
		prev = o + len(sep)
	}
	parts = append(parts, StrV{b: s.b[prev:]})
	return in.strSlice(parts)
}

func iStringsRepeat(in *Interp, fn *ssa.Function, a []Value) Value {
	s := a[0].(StrV)
	n := in.intOf(a[1], "strings.Repeat count")
	if n < 0 {
		panic(goPanic{msg: "panic: strings: negative Repeat count", fn: "strings.Repeat"})
	}
	if len(s.b)*n > 1<<16 {
		panic(engineErr{kind: "BOUND-EXCEEDED", msg: fmt.Sprintf("strings.Repeat result of %d bytes", len(s.b)*n)})
	}
	out := make([]*Term, 0, len(s.b)*n)
	for i := 0; i < n; i++ {
		out = append(out, s.b...)
	}
	return StrV{b: out}
}

func iStringsJoin(in *Interp, fn *ssa.Function, a []Value) Value {
	elems := in.sliceElems(a[0].(SliceV))
	sep := a[1].(StrV)
	var out []*Term
	for i, e := range elems {
		if i > 0 {
			out = append(out, sep.b...)
		}
		out = append(out, e.(StrV).b...)
	}
	return StrV{b: out}
}

func (in *Interp) replace(s StrV, old string, nw StrV, n int) StrV {
	if old == "" {
		cs, ok := concreteString(s)
		cn, ok2 := concreteString(nw)
		if !ok || !ok2 {
			in.unsupported("strings.Replace with empty old on symbolic string")
		}
		return in.mkStr(strings.Replace(cs, old, cn, n))
	}
	offs := in.findAll(s.b, old, n)
	if len(offs) == 0 {
		return s
	}
	var out []*Term
	prev := 0
	for _, o := range offs {
		out = append(out, s.b[prev:o]...)
		out = append(out, nw.b...)
		prev = o + len(old)
	}
	out = append(out, s.b[prev:]...)
	return StrV{b: out}
}

func iStringsReplace(in *Interp, fn *ssa.Function, a []Value) Value {
	n := in.intOf(a[3], "strings.Replace n")
	return in.replace(a[0].(StrV), in.concreteStr(a[1], "strings.Replace old"), a[2].(StrV), n)
}

func iStringsReplaceAll(in *Interp, fn *ssa.Function, a []Value) Value {
	return in.replace(a[0].(StrV), in.concreteStr(a[1], "strings.ReplaceAll old"), a[2].(StrV), -1)
}

func iStringsToLower(in *Interp, fn *ssa.Function, a []Value) Value {
	s := a[0].(StrV)
	if cs, ok := concreteString(s); ok {
		return in.mkStr(strings.ToLower(cs))
	}
	out := make([]*Term, len(s.b))
	for i, b := range s.b {
		if !in.branch(in.tt.Bin(OpUlt, b, in.tt.b8[0x80])) {
			in.unsupported("strings.ToLower on symbolic non-ASCII byte")
		}
		isUp := in.tt.And(in.tt.Bin(OpUle, in.tt.b8['A'], b), in.tt.Bin(OpUle, b, in.tt.b8['Z']))
		out[i] = in.tt.Ite(isUp, in.tt.Bin(OpAdd, b, in.tt.b8[32]), b)
	}
	return StrV{b: out}
}

// iStringsEqualFold: concrete operands go through the real function; symbolic bytes must be ASCII
// (then folding is per byte; a symbolic non-ASCII byte is outside the model). An ASCII string can only
// fold onto a non-ASCII one through U+017F (long s) and U+212A (Kelvin sign), which the concrete side
// decides: strings of different byte length where one side is all-ASCII-symbolic are compared by
// enumerating nothing - they are reported unsupported unless the concrete side is ASCII too.
func iStringsEqualFold(in *Interp, fn *ssa.Function, a []Value) Value {
	x, y := a[0].(StrV), a[1].(StrV)
	cx, okx := concreteString(x)
	cy, oky := concreteString(y)
	if okx && oky {
		return in.tt.Bool(strings.EqualFold(cx, cy))
	}
	for _, s := range []StrV{x, y} {
		for _, b := range s.b {
			if b.op == OpConst {
				if b.val >= 0x80 {
					in.unsupported("strings.EqualFold of symbolic text with a non-ASCII operand")
				}
				continue
			}
			if !in.branch(in.tt.Bin(OpUlt, b, in.tt.b8[0x80])) {
				in.unsupported("strings.EqualFold on symbolic non-ASCII byte")
			}
		}
	}
	if len(x.b) != len(y.b) {
		return in.tt.tF
	}
	lower := func(b *Term) *Term {
		isUp := in.tt.And(in.tt.Bin(OpUle, in.tt.b8['A'], b), in.tt.Bin(OpUle, b, in.tt.b8['Z']))
		return in.tt.Ite(isUp, in.tt.Bin(OpAdd, b, in.tt.b8[32]), b)
	}
	cs := make([]*Term, len(x.b))
	for i := range x.b {
		cs[i] = in.tt.Bin(OpEq, lower(x.b[i]), lower(y.b[i]))
	}
	return in.tt.And(cs...)
}

func iBytesEqual(in *Interp, fn *ssa.Function, a []Value) Value {
	return in.valueEq(StrV{b: in.bytesOf(a[0])}, StrV{b: in.bytesOf(a[1])})
}

// ---------- bytes.Buffer (field 0 = buf []byte, field 1 = off int)

func (in *Interp) bufAppend(p PtrV, bs []*Term) {
	if p.isNil() {
		in.goPanicf("runtime error: invalid memory address or nil pointer dereference (nil *bytes.Buffer)")
	}
	in.logAccess("wr", p)
	bufp := p.sub(0)
	cur := in.bytesOf(bufp.load())
	nb := make([]*Term, 0, len(cur)+len(bs))
	nb = append(nb, cur...)
	nb = append(nb, bs...)
	bufp.store(in.byteSlice(nb))
}

func iBufWrite(in *Interp, fn *ssa.Function, a []Value) Value {
	bs := in.bytesOf(a[1])
	in.bufAppend(a[0].(PtrV), bs)
	return TupleV{in.intTerm(len(bs)), errNilIface}
}

func iBufWriteString(in *Interp, fn *ssa.Function, a []Value) Value {
	bs := a[1].(StrV).b
	in.bufAppend(a[0].(PtrV), bs)
	return TupleV{in.intTerm(len(bs)), errNilIface}
}

func iBufWriteByte(in *Interp, fn *ssa.Function, a []Value) Value {
	in.bufAppend(a[0].(PtrV), []*Term{a[1].(*Term)})
	return errNilIface
}

func iBufString(in *Interp, fn *ssa.Function, a []Value) Value {
	p := a[0].(PtrV)
	if p.isNil() {
		return in.mkStr("<nil>")
	}
	in.logAccess("rd", p)
	bs := in.bytesOf(p.sub(0).load())
	off := in.intOf(p.sub(1).load(), "bytes.Buffer.off")
	if off > len(bs) {
		off = len(bs)
	}
	return StrV{b: bs[off:]}
}

func iBufLen(in *Interp, fn *ssa.Function, a []Value) Value {
	p := a[0].(PtrV)
	off := in.intOf(p.sub(1).load(), "bytes.Buffer.off")
	return in.intTerm(len(in.bytesOf(p.sub(0).load())) - off)
}

// ---------- fmt

// callWrite invokes w.Write(p) on an io.Writer interface value.
func (in *Interp) callWrite(w Value, bs []*Term) (n *Term, err IfaceV) {
	iv := w.(IfaceV)
	if iv.t == nil {
		in.goPanicf("runtime error: invalid memory address or nil pointer dereference (nil io.Writer)")
	}
	m := in.lookupMethod(iv.t, nil, "Write")
	if m == nil {
		in.unsupported("io.Writer without Write: " + iv.t.String())
	}
	r := in.callFn(m, []Value{iv.v, in.byteSlice(bs)}, nil).(TupleV)
	return r[0].(*Term), r[1].(IfaceV)
}

func (in *Interp) fmtOperand(v Value, verb byte, sharp bool) ([]*Term, bool) {
	return in.fmtOperandM(v, verb, sharp, true)
}

// callFormatter runs operand.Format(state, verb) with a state object of the harness run-time's type
// vfFmtState and returns the bytes written to it.
func (in *Interp) callFormatter(m *ssa.Function, iv IfaceV, verb byte) ([]*Term, bool) {
	if len(in.ld.harnessFns) == 0 {
		return nil, false
	}
	st := in.ld.harnessFns[0].Pkg.Type("vfFmtState")
	if st == nil {
		return nil, false
	}
	obj := in.newObj(st.Type(), in.zero(st.Type()), "fmt.State")
	state := IfaceV{t: types.NewPointer(st.Type()), v: PtrV{obj: obj}}
	in.callFn(m, []Value{iv.v, state, in.tt.Const(32, uint64(verb))}, nil)
	sv, ok := obj.v.(*StructV)
	if !ok || len(sv.f) == 0 {
		return nil, false
	}
	buf, ok := sv.f[0].(SliceV)
	if !ok {
		return nil, false
	}
	var out []*Term
	for _, e := range in.sliceElems(buf) {
		out = append(out, e.(*Term))
	}
	return out, true
}

func (in *Interp) fmtOperandM(v Value, verb byte, sharp bool, methods bool) ([]*Term, bool) {
	iv, ok := v.(IfaceV)
	if !ok {
		return nil, false
	}
	if iv.t == nil {
		if verb == 'v' || verb == 's' || verb == 'd' {
			if verb == 'v' {
				return in.mkStr("<nil>").b, true
			}
			return in.mkStr("%!" + string(verb) + "(<nil>)").b, true
		}
		return nil, false
	}
	if verb == 'T' {
		return in.mkStr(typeString(iv.t)).b, true
	}
	// fmt.Formatter takes precedence over everything else: the operand formats itself into a fmt.State
	// (the harness run-time's vfFmtState: no flags, no width, no precision)
	if methods {
		if m := in.lookupMethod(iv.t, nil, "Format"); m != nil && m.Signature.Params().Len() == 2 && m.Signature.Results().Len() == 0 {
			if p, isPtr := iv.v.(PtrV); !(isPtr && p.isNil()) {
				if b, ok := in.callFormatter(m, iv, verb); ok {
					return b, true
				}
				return nil, false
			}
		}
	}
	if verb == 'v' && sharp && methods {
		if m := in.lookupMethod(iv.t, nil, "GoString"); m != nil && m.Signature.Params().Len() == 0 && m.Signature.Results().Len() == 1 {
			if p, isPtr := iv.v.(PtrV); isPtr && p.isNil() {
				return in.mkStr("<nil>").b, true
			}
			return in.callFn(m, []Value{iv.v}, nil).(StrV).b, true
		}
		// Go-syntax formatting of arbitrary values is outside the model: debug text only
		in.approxFmt++
		return in.mkStr("(" + typeString(iv.t) + ")<go-syntax>").b, true
	}
	// error / Stringer take precedence for %v %s
	if verb == 'v' || verb == 's' || verb == 'q' {
		if !sharp && methods {
			for _, mname := range []string{"Error", "String"} {
				if m := in.lookupMethod(iv.t, nil, mname); m != nil && m.Signature.Params().Len() == 0 && m.Signature.Results().Len() == 1 {
					if b, ok := m.Signature.Results().At(0).Type().Underlying().(*types.Basic); ok && b.Kind() == types.String {
						if p, isPtr := iv.v.(PtrV); isPtr && p.isNil() {
							return in.mkStr("<nil>").b, true
						}
						s := in.callFn(m, []Value{iv.v}, nil).(StrV)
						if verb == 'q' {
							if _, conc := concreteString(s); !conc && in.fmtLenient {
								return nil, false
							}
							return in.quoteSym(s)
						}
						return s.b, true
					}
				}
			}
		}
	}
	switch u := iv.t.Underlying().(type) {
	case *types.Basic:
		switch {
		case u.Info()&types.IsString != 0:
			s := iv.v.(StrV)
			switch verb {
			case 'v', 's':
				if sharp {
					cs, ok := concreteString(s)
					if !ok {
						return nil, false
					}
					return in.mkStr(strconv.Quote(cs)).b, true
				}
				return s.b, true
			case 'q':
				if _, conc := concreteString(s); !conc && in.fmtLenient {
					return nil, false // error texts stay opaque rather than forking on every byte
				}
				return in.quoteSym(s)
			}
		case u.Info()&types.IsFloat != 0:
			if f, ok := iv.v.(*OpaqueV); ok && f.kind == "float" && (verb == 'v' || verb == 'g') && f.data != nil {
				bits := 64
				if u.Kind() == types.Float32 {
					bits = 32
				}
				return in.mkStr(fmtFloatV(f.data.(float64), bits)).b, true
			}
			return nil, false
		case u.Info()&types.IsBoolean != 0:
			if verb == 'v' || verb == 't' {
				if in.branch(iv.v.(*Term)) {
					return in.mkStr("true").b, true
				}
				return in.mkStr("false").b, true
			}
		case u.Info()&types.IsInteger != 0:
			if verb == 'v' || verb == 'd' {
				_, signed, _ := basicSort(u)
				t := iv.v.(*Term)
				if in.fmtLenient && t.op != OpConst {
					return nil, false
				}
				x := in.concretize(in.tt.Resize(t, 64, signed), "integer formatted by fmt")
				if signed {
					return in.mkStr(strconv.FormatInt(x, 10)).b, true
				}
				return in.mkStr(strconv.FormatUint(uint64(x), 10)).b, true
			}
			if verb == 'c' {
				return in.runeToString(iv.v.(*Term), u).(StrV).b, true
			}
		}
	case *types.Map:
		if verb == 'v' && !sharp {
			m := iv.v.(*MapV)
			if m == nil || len(m.keys) == 0 {
				return in.mkStr("map[]").b, true
			}
			// fmt prints maps sorted by key: modelled for concrete string or integer keys
			type kv struct {
				ks string
				ki int64
				k  Value
				v  Value
			}
			var kvs []kv
			isStr := false
			for i, k := range m.keys {
				switch kk := k.(type) {
				case StrV:
					cs, ok := concreteString(kk)
					if !ok {
						return nil, false
					}
					isStr = true
					kvs = append(kvs, kv{ks: cs, k: k, v: m.vals[i]})
				case *Term:
					if kk.op != OpConst {
						return nil, false
					}
					kvs = append(kvs, kv{ki: signExt(kk.val, kk.sort), k: k, v: m.vals[i]})
				default:
					return nil, false
				}
			}
			sort.Slice(kvs, func(a, b int) bool {
				if isStr {
					return kvs[a].ks < kvs[b].ks
				}
				return kvs[a].ki < kvs[b].ki
			})
			out := in.mkStr("map[").b
			for i, e := range kvs {
				if i > 0 {
					out = append(out, in.tt.b8[' '])
				}
				kb, ok := in.fmtOperandM(IfaceV{t: u.Key(), v: e.k}, 'v', false, methods)
				if !ok {
					return nil, false
				}
				ev := IfaceV{t: u.Elem(), v: e.v}
				if _, isIface := u.Elem().Underlying().(*types.Interface); isIface {
					ev = e.v.(IfaceV)
				}
				vb, ok := in.fmtOperandM(ev, 'v', false, methods)
				if !ok {
					return nil, false
				}
				out = append(append(append(out, kb...), in.tt.b8[':']), vb...)
			}
			return append(out, in.tt.b8[']']), true
		}
	case *types.Pointer:
		if verb == 'v' && !sharp {
			p := iv.v.(PtrV)
			if p.isNil() {
				return in.mkStr("<nil>").b, true
			}
			if _, isStruct := u.Elem().Underlying().(*types.Struct); isStruct {
				fb, ok := in.fmtOperand(IfaceV{t: u.Elem(), v: p.load()}, 'v', false)
				if !ok {
					return nil, false
				}
				return append(in.mkStr("&").b, fb...), true
			}
		}
	case *types.Array, *types.Slice:
		if verb == 'v' && !sharp {
			if sv, isSlice := iv.v.(SliceV); isSlice && sv.len == 0 {
				return in.mkStr("[]").b, true
			}
			var elems []Value
			var et types.Type
			if at, ok := u.(*types.Array); ok {
				elems, et = iv.v.(*ArrayV).e, at.Elem()
			} else {
				sv := iv.v.(SliceV)
				elems, et = in.sliceElems(sv), u.(*types.Slice).Elem()
				if bt, ok := et.Underlying().(*types.Basic); ok && bt.Kind() == types.Uint8 {
					return nil, false // []byte prints as numbers: not modelled
				}
			}
			out := in.mkStr("[").b
			for i, e := range elems {
				if i > 0 {
					out = append(out, in.tt.b8[' '])
				}
				ev := IfaceV{t: et, v: e}
				if _, isIface := et.Underlying().(*types.Interface); isIface {
					ev = e.(IfaceV)
				}
				fb, ok := in.fmtOperandM(ev, 'v', false, methods)
				if !ok {
					return nil, false
				}
				out = append(out, fb...)
			}
			return append(out, in.tt.b8[']']), true
		}
	case *types.Struct:
		if verb == 'v' && !sharp {
			out := in.mkStr("{").b
			sv := iv.v.(*StructV)
			for i := 0; i < u.NumFields(); i++ {
				if i > 0 {
					out = append(out, in.tt.b8[' '])
				}
				fb, ok := in.fmtOperandM(IfaceV{t: u.Field(i).Type(), v: sv.f[i]}, 'v', false, u.Field(i).Exported())
				if !ok {
					return nil, false
				}
				out = append(out, fb...)
			}
			return append(out, in.tt.b8['}']), true
		}
	}
	return nil, false
}

func typeString(t types.Type) string {
	return types.TypeString(t, func(p *types.Package) string { return p.Name() })
}

// sprintf implements the subset of fmt formatting the repository needs. ok=false when a verb/operand
// combination is outside the model.
func (in *Interp) sprintf(format string, args []Value) ([]*Term, bool) {
	var out []*Term
	ai := 0
	for i := 0; i < len(format); i++ {
		c := format[i]
		if c != '%' {
			out = append(out, in.tt.b8[c])
			continue
		}
		i++
		if i >= len(format) {
			return nil, false
		}
		sharp, minus := false, false
		for i < len(format) && (format[i] == '#' || format[i] == '-') {
			if format[i] == '#' {
				sharp = true
			} else {
				minus = true
			}
			i++
		}
		// width: decimal digits or '*' (an int operand; a negative one means left-justify)
		width, haveWidth := 0, false
		if i < len(format) && format[i] == '*' {
			if ai >= len(args) {
				return nil, false
			}
			wv, isIface := args[ai].(IfaceV)
			if !isIface || wv.t == nil {
				return nil, false
			}
			wt, isTerm := wv.v.(*Term)
			if bt, isBasic := wv.t.Underlying().(*types.Basic); !isTerm || !isBasic || bt.Kind() != types.Int {
				return nil, false
			}
			ai++
			w := in.concretize(wt, "fmt width")
			if w < 0 {
				minus, w = true, -w
			}
			if w > 1<<20 {
				return nil, false
			}
			width, haveWidth = int(w), true
			i++
		} else {
			for i < len(format) && format[i] >= '0' && format[i] <= '9' {
				if !haveWidth && format[i] == '0' {
					return nil, false // zero padding is outside the model
				}
				width, haveWidth = width*10+int(format[i]-'0'), true
				i++
			}
		}
		if i >= len(format) {
			return nil, false
		}
		verb := format[i]
		if verb == '%' {
			out = append(out, in.tt.b8['%'])
			continue
		}
		if ai >= len(args) {
			return nil, false
		}
		b, ok := in.fmtOperand(args[ai], verb, sharp)
		ai++
		if !ok {
			return nil, false
		}
		if haveWidth && width > 0 {
			// fmt pads to the width counted in runes
			cnt := iRuneCount(in, nil, []Value{StrV{b: b}}).(*Term)
			n := int(in.concretize(cnt, "fmt operand rune count"))
			var padding []*Term
			for k := n; k < width; k++ {
				padding = append(padding, in.tt.b8[' '])
			}
			if minus {
				b = append(append([]*Term{}, b...), padding...)
			} else {
				b = append(padding, b...)
			}
		}
		out = append(out, b...)
	}
	if ai != len(args) {
		return nil, false
	}
	return out, true
}

func (in *Interp) variadic(v Value) []Value {
	return in.sliceElems(v.(SliceV))
}

func (in *Interp) fprintBytes(ops []Value, ln bool) []*Term {
	var out []*Term
	prevString := false
	for i, o := range ops {
		iv := o.(IfaceV)
		isStr := false
		if iv.t != nil {
			if b, ok := iv.t.Underlying().(*types.Basic); ok && b.Info()&types.IsString != 0 {
				isStr = true
			}
		}
		if i > 0 && (ln || (!isStr && !prevString)) {
			out = append(out, in.tt.b8[' '])
		}
		b, ok := in.fmtOperand(o, 'v', false)
		if !ok {
			in.unsupported("fmt.Fprint operand of type " + fmt.Sprint(iv.t))
		}
		out = append(out, b...)
		prevString = isStr
	}
	if ln {
		out = append(out, in.tt.b8['\n'])
	}
	return out
}

func iFmtFprint(in *Interp, fn *ssa.Function, a []Value) Value {
	bs := in.fprintBytes(in.variadic(a[1]), false)
	n, err := in.callWrite(a[0], bs)
	return TupleV{n, err}
}

func iFmtFprintln(in *Interp, fn *ssa.Function, a []Value) Value {
	bs := in.fprintBytes(in.variadic(a[1]), true)
	n, err := in.callWrite(a[0], bs)
	return TupleV{n, err}
}

// sprintfSymbolic handles a format string with symbolic bytes when there are no operands: every
// '%' starts a verb without operand, which fmt renders as %!c(MISSING) ("%%" as "%", a trailing
// '%' as %!(NOVERB)); flags, widths and multi-byte verbs are outside the model.
func (in *Interp) sprintfSymbolic(f StrV) []*Term {
	var out []*Term
	for i := 0; i < len(f.b); i++ {
		b := f.b[i]
		if !in.branch(in.tt.Bin(OpEq, b, in.tt.b8['%'])) {
			out = append(out, b)
			continue
		}
		if i+1 >= len(f.b) {
			out = append(out, in.mkStr("%!(NOVERB)").b...)
			continue
		}
		c := f.b[i+1]
		i++
		if in.branch(in.tt.Bin(OpEq, c, in.tt.b8['%'])) {
			out = append(out, in.tt.b8['%'])
			continue
		}
		for _, fl := range []byte(" #+-.[*") {
			if in.branch(in.tt.Bin(OpEq, c, in.tt.b8[fl])) {
				in.unsupported("fmt: flag in symbolic format string")
			}
		}
		if in.byteIn(c, '0', '9') || !in.branch(in.tt.Bin(OpUlt, c, in.tt.b8[0x80])) {
			in.unsupported("fmt: width or multi-byte verb in symbolic format string")
		}
		out = append(out, in.mkStr("%!").b...)
		out = append(out, c)
		out = append(out, in.mkStr("(MISSING)").b...)
	}
	return out
}

func iFmtFprintf(in *Interp, fn *ssa.Function, a []Value) Value {
	if _, concrete := concreteString(a[1].(StrV)); !concrete && len(in.variadic(a[2])) == 0 {
		n, err := in.callWrite(a[0], in.sprintfSymbolic(a[1].(StrV)))
		return TupleV{n, err}
	}
	bs, ok := in.sprintf(in.concreteStr(a[1], "format"), in.variadic(a[2]))
	if !ok {
		in.unsupported("fmt.Fprintf format outside the model")
	}
	n, err := in.callWrite(a[0], bs)
	return TupleV{n, err}
}

func iFmtSprintf(in *Interp, fn *ssa.Function, a []Value) Value {
	if _, concrete := concreteString(a[0].(StrV)); !concrete && len(in.variadic(a[1])) == 0 {
		return StrV{b: in.sprintfSymbolic(a[0].(StrV))}
	}
	f := in.concreteStr(a[0], "format")
	bs, ok := in.sprintf(f, in.variadic(a[1]))
	if !ok {
		in.unsupported("fmt.Sprintf format outside the model: " + f)
	}
	return StrV{b: bs}
}

func (in *Interp) newError(msg StrV) IfaceV {
	et := in.ld.errorStringT
	o := in.newObj(et, &StructV{f: []Value{msg}}, "error")
	return IfaceV{t: types.NewPointer(et), v: PtrV{obj: o}}
}

func iFmtErrorf(in *Interp, fn *ssa.Function, a []Value) Value {
	f := in.concreteStr(a[0], "format")
	in.fmtLenient = true
	bs, ok := in.sprintf(f, in.variadic(a[1]))
	in.fmtLenient = false
	if !ok {
		// error text is opaque: the message of an error is outside every property
		bs = in.mkStr("<opaque error: " + f + ">").b
	}
	return in.newError(StrV{b: bs})
}

// ---------- width / rune count

func asciiPrintableDomain(t *Term) (allPrintable, allASCII bool) {
	if t.op == OpConst {
		return t.val >= 0x20 && t.val <= 0x7e, t.val < 0x80
	}
	if t.op == OpVar && t.dom != nil && t.dom.isBits {
		allPrintable, allASCII = true, true
		for v := 0; v < 256; v++ {
			if t.dom.has(uint64(v)) {
				if v < 0x20 || v > 0x7e {
					allPrintable = false
				}
				if v >= 0x80 {
					allASCII = false
				}
			}
		}
		return
	}
	return false, false
}

func (in *Interp) declareStrUF(prefix string, n int, eval func(string) uint64) string {
	name := fmt.Sprintf("%s%d", prefix, n)
	as := make([]Sort, n)
	for i := range as {
		as[i] = 8
	}
	in.tt.DeclareUF(name, as, 64, func(vs []uint64) uint64 {
		b := make([]byte, len(vs))
		for i, v := range vs {
			b[i] = byte(v)
		}
		return eval(string(b))
	})
	return name
}

func realStringWidth(s string) int {
	return rwNarrow.StringWidth(s)
}

// the two width rules go-runewidth can be configured with (its environment detection sets EastAsianWidth)
var rwNarrow = &runewidth.Condition{EastAsianWidth: false, StrictEmojiNeutral: true}
var rwEastAsianCond = &runewidth.Condition{EastAsianWidth: true, StrictEmojiNeutral: true}

// widthTerm is the width of a concrete string under the current value of the EastAsianWidth flag.
func (in *Interp) widthTerm(s string) *Term {
	n := rwNarrow.StringWidth(s)
	ea := in.rwEastAsian()
	if ea.IsFalse() {
		return in.intTerm(n)
	}
	e := rwEastAsianCond.StringWidth(s)
	if e == n {
		return in.intTerm(n)
	}
	return in.tt.Ite(ea, in.intTerm(e), in.intTerm(n))
}

// iStringWidth models runewidth.StringWidth. Concrete runs are measured by the real function; a
// symbolic byte whose domain is ASCII contributes ite(printable,1,0); otherwise the whole string is
// an uninterpreted function of its bytes (evaluated with the real function on models).
func iStringWidth(in *Interp, fn *ssa.Function, a []Value) Value {
	s := a[0].(StrV)
	if len(s.b) > 0 {
		// the condition object is read by RuneWidth, i.e. once the string has a first rune
		in.logRunewidthGlobal("rd")
	}
	if cs, ok := concreteString(s); ok {
		return in.widthTerm(cs)
	}
	sum := in.tt.Const(64, 0)
	okAdditive := true
	var run []byte
	flush := func() {
		if len(run) > 0 {
			if !utf8.Valid(run) {
				okAdditive = false
			}
			sum = in.tt.Bin(OpAdd, sum, in.widthTerm(string(run)))
			run = nil
		}
	}
	for _, b := range s.b {
		val, known, pr, npr, asc := in.byteClass(b)
		if known {
			run = append(run, byte(val))
			continue
		}
		flush()
		if !asc {
			okAdditive = false
			break
		}
		if pr {
			sum = in.tt.Bin(OpAdd, sum, in.tt.Const(64, 1))
		} else if npr {
			// width 0
		} else {
			isP := in.tt.And(in.tt.Bin(OpUle, in.tt.b8[0x20], b), in.tt.Bin(OpUle, b, in.tt.b8[0x7e]))
			sum = in.tt.Bin(OpAdd, sum, in.tt.Ite(isP, in.tt.Const(64, 1), in.tt.Const(64, 0)))
		}
	}
	flush()
	if okAdditive {
		return sum
	}
	if !in.rwEastAsian().IsFalse() {
		in.unsupported("width of symbolic non-ASCII text while go-runewidth's EastAsianWidth flag is set or symbolic")
	}
	name := in.declareStrUF("runewidth", len(s.b), func(x string) uint64 { return uint64(realStringWidth(x)) })
	t := in.tt.UF(name, 64, s.b)
	// contract: 0 <= width <= 2*len
	in.addPC(in.tt.Bin(OpSle, in.tt.Const(64, 0), t))
	in.addPC(in.tt.Bin(OpSle, t, in.tt.Const(64, uint64(2*len(s.b)))))
	return t
}

func iRuneCount(in *Interp, fn *ssa.Function, a []Value) Value {
	s := a[0].(StrV)
	if cs, ok := concreteString(s); ok {
		return in.intTerm(utf8.RuneCountInString(cs))
	}
	sum := in.tt.Const(64, 0)
	ok := true
	var run []byte
	flush := func() {
		if len(run) > 0 {
			if !utf8.Valid(run) {
				ok = false
			}
			sum = in.tt.Bin(OpAdd, sum, in.intTerm(utf8.RuneCount(run)))
			run = nil
		}
	}
	for _, b := range s.b {
		if b.op == OpConst {
			run = append(run, byte(b.val))
			continue
		}
		flush()
		if _, asc := asciiPrintableDomain(b); !asc {
			ok = false
			break
		}
		sum = in.tt.Bin(OpAdd, sum, in.tt.Const(64, 1))
	}
	flush()
	if ok {
		return sum
	}
	name := in.declareStrUF("runecount", len(s.b), func(x string) uint64 { return uint64(utf8.RuneCountInString(x)) })
	t := in.tt.UF(name, 64, s.b)
	in.addPC(in.tt.Bin(OpSle, in.tt.Const(64, 0), t))
	in.addPC(in.tt.Bin(OpSle, t, in.tt.Const(64, uint64(len(s.b)))))
	return t
}

// ---------- html.EscapeString

func iHTMLEscape(in *Interp, fn *ssa.Function, a []Value) Value {
	s := a[0].(StrV)
	var out []*Term
	for _, b := range s.b {
		switch {
		case in.branch(in.tt.Bin(OpEq, b, in.tt.b8['&'])):
			out = append(out, in.mkStr("&amp;").b...)
		case in.branch(in.tt.Bin(OpEq, b, in.tt.b8['\''])):
			out = append(out, in.mkStr("&#39;").b...)
		case in.branch(in.tt.Bin(OpEq, b, in.tt.b8['<'])):
			out = append(out, in.mkStr("&lt;").b...)
		case in.branch(in.tt.Bin(OpEq, b, in.tt.b8['>'])):
			out = append(out, in.mkStr("&gt;").b...)
		case in.branch(in.tt.Bin(OpEq, b, in.tt.b8['"'])):
			out = append(out, in.mkStr("&#34;").b...)
		default:
			out = append(out, b)
		}
	}
	return StrV{b: out}
}

// iHTMLUnescape models html.UnescapeString: concrete strings go through the real function; with
// symbolic bytes the string is unchanged unless some '&' is followed by at least two more bytes the
// first of which is '#' or a letter (an entity candidate), which is outside the model.
func iHTMLUnescape(in *Interp, fn *ssa.Function, a []Value) Value {
	s := a[0].(StrV)
	if cs, ok := concreteString(s); ok {
		return in.mkStr(html.UnescapeString(cs))
	}
	for i, b := range s.b {
		if len(s.b)-i-1 < 2 {
			break
		}
		if !in.branch(in.tt.Bin(OpEq, b, in.tt.b8['&'])) {
			continue
		}
		n := s.b[i+1]
		lower := in.tt.Bin(OpOr, n, in.tt.Const(8, 0x20))
		cand := in.tt.Or(in.tt.Bin(OpEq, n, in.tt.b8['#']),
			in.tt.And(in.tt.Bin(OpUle, in.tt.b8['a'], lower), in.tt.Bin(OpUle, lower, in.tt.b8['z'])))
		if in.branch(cand) {
			in.unsupported("html.UnescapeString of a symbolic entity candidate")
		}
	}
	return s
}

// ---------- encoding/json.Marshal (subset)

const hexDigits = "0123456789abcdef"

func (in *Interp) jsonString(s StrV) []*Term {
	out := []*Term{in.tt.b8['"']}
	eq := func(b *Term, c byte) bool { return in.branch(in.tt.Bin(OpEq, b, in.tt.b8[c])) }
	for i := 0; i < len(s.b); i++ {
		b := s.b[i]
		if b.op == OpConst && b.val >= 0x80 {
			// concrete multi-byte sequence
			j := i
			var raw []byte
			for j < len(s.b) && j < i+4 && s.b[j].op == OpConst {
				raw = append(raw, byte(s.b[j].val))
				j++
			}
			r, size := utf8.DecodeRune(raw)
			if r == utf8.RuneError && size == 1 {
				out = append(out, in.mkStr(`\ufffd`).b...)
				continue
			}
			if r == 0x2028 || r == 0x2029 {
				out = append(out, in.mkStr(`\u202`+string(hexDigits[r&0xF])).b...)
			} else {
				out = append(out, s.b[i:i+size]...)
			}
			i += size - 1
			continue
		}
		if !in.branch(in.tt.Bin(OpUlt, b, in.tt.b8[0x80])) {
			in.unsupported("json.Marshal of symbolic non-ASCII byte")
		}
		switch {
		case eq(b, '"'):
			out = append(out, in.mkStr(`\"`).b...)
		case eq(b, '\\'):
			out = append(out, in.mkStr(`\\`).b...)
		case eq(b, '\n'):
			out = append(out, in.mkStr(`\n`).b...)
		case eq(b, '\r'):
			out = append(out, in.mkStr(`\r`).b...)
		case eq(b, '\t'):
			out = append(out, in.mkStr(`\t`).b...)
		case eq(b, '<'):
			out = append(out, in.mkStr(`\u003c`).b...)
		case eq(b, '>'):
			out = append(out, in.mkStr(`\u003e`).b...)
		case eq(b, '&'):
			out = append(out, in.mkStr(`\u0026`).b...)
		case in.branch(in.tt.Bin(OpUlt, b, in.tt.b8[0x20])):
			// \u00XY with X in {0,1}
			hi := in.tt.Ite(in.tt.Bin(OpUlt, b, in.tt.b8[0x10]), in.tt.b8['0'], in.tt.b8['1'])
			lo4 := in.tt.Bin(OpAnd, b, in.tt.b8[0x0f])
			lo := in.tt.Ite(in.tt.Bin(OpUlt, lo4, in.tt.b8[10]), in.tt.Bin(OpAdd, lo4, in.tt.b8['0']), in.tt.Bin(OpAdd, lo4, in.tt.b8['a'-10]))
			out = append(out, in.mkStr(`\u00`).b...)
			out = append(out, hi, lo)
		default:
			out = append(out, b)
		}
	}
	return append(out, in.tt.b8['"'])
}

func (in *Interp) jsonValue(t types.Type, v Value) ([]*Term, bool) {
	if t == nil {
		return in.mkStr("null").b, true
	}
	// Marshaler / TextMarshaler are outside the model
	for _, mname := range []string{"MarshalJSON", "MarshalText"} {
		if in.lookupMethod(t, nil, mname) != nil {
			return nil, false
		}
		if _, isPtr := t.Underlying().(*types.Pointer); !isPtr {
			if in.lookupMethod(types.NewPointer(t), nil, mname) != nil {
				// only pointer receivers: not used for non-addressable values; fine
			}
		}
	}
	switch u := t.Underlying().(type) {
	case *types.Basic:
		switch {
		case u.Info()&types.IsString != 0:
			return in.jsonString(v.(StrV)), true
		case u.Info()&types.IsBoolean != 0:
			if in.branch(v.(*Term)) {
				return in.mkStr("true").b, true
			}
			return in.mkStr("false").b, true
		case u.Info()&types.IsInteger != 0:
			_, signed, _ := basicSort(u)
			x := in.concretize(in.tt.Resize(v.(*Term), 64, signed), "integer marshalled to JSON")
			if signed {
				return in.mkStr(strconv.FormatInt(x, 10)).b, true
			}
			return in.mkStr(strconv.FormatUint(uint64(x), 10)).b, true
		case u.Info()&types.IsFloat != 0:
			f, isF := v.(*OpaqueV)
			if !isF || f.kind != "float" || f.data == nil {
				return nil, false
			}
			var enc []byte
			var err error
			if u.Kind() == types.Float32 {
				enc, err = json.Marshal(float32(f.data.(float64)))
			} else {
				enc, err = json.Marshal(f.data.(float64))
			}
			if err != nil {
				in.jsonErr = err.Error() // NaN and infinities: UnsupportedValueError
				return nil, false
			}
			return in.mkStr(string(enc)).b, true
		}
	case *types.Struct:
		out := in.mkStr("{").b
		first := true
		var emit func(st *types.Struct, sv *StructV) bool
		emit = func(st *types.Struct, sv *StructV) bool {
			for i := 0; i < st.NumFields(); i++ {
				f := st.Field(i)
				if st.Tag(i) != "" {
					return false
				}
				if f.Embedded() {
					// exported fields of embedded structs are promoted; embedded pointers/interfaces are outside the model
					es, isStruct := f.Type().Underlying().(*types.Struct)
					if !isStruct {
						if !f.Exported() {
							continue
						}
						return false
					}
					if !emit(es, sv.f[i].(*StructV)) {
						return false
					}
					continue
				}
				if !f.Exported() {
					continue
				}
				fb, ok := in.jsonValue(f.Type(), sv.f[i])
				if !ok {
					return false
				}
				if !first {
					out = append(out, in.tt.b8[','])
				}
				first = false
				out = append(out, in.jsonString(in.mkStr(f.Name()))...)
				out = append(out, in.tt.b8[':'])
				out = append(out, fb...)
			}
			return true
		}
		if !emit(u, v.(*StructV)) {
			return nil, false
		}
		return append(out, in.tt.b8['}']), true
	case *types.Pointer:
		p := v.(PtrV)
		if p.isNil() {
			return in.mkStr("null").b, true
		}
		return in.jsonValue(u.Elem(), p.load())
	case *types.Interface:
		iv := v.(IfaceV)
		return in.jsonValue(iv.t, iv.v)
	}
	return nil, false
}

// jsonUnsupportedType reports whether encoding/json rejects values of this type outright
// (UnsupportedTypeError): functions, channels, complex numbers - also inside exported struct fields.
func jsonUnsupportedType(t types.Type, depth int) bool {
	if depth > 4 {
		return false
	}
	switch u := t.Underlying().(type) {
	case *types.Signature, *types.Chan:
		return true
	case *types.Basic:
		return u.Info()&types.IsComplex != 0
	case *types.Struct:
		for i := 0; i < u.NumFields(); i++ {
			if u.Field(i).Exported() && jsonUnsupportedType(u.Field(i).Type(), depth+1) {
				return true
			}
		}
	case *types.Pointer:
		return jsonUnsupportedType(u.Elem(), depth+1)
	}
	return false
}

func iJSONMarshal(in *Interp, fn *ssa.Function, a []Value) Value {
	iv := a[0].(IfaceV)
	if iv.t != nil && in.lookupMethod(iv.t, nil, "MarshalJSON") == nil && in.lookupMethod(iv.t, nil, "MarshalText") == nil && jsonUnsupportedType(iv.t, 0) {
		return TupleV{SliceV{}, in.newError(in.mkStr("json: unsupported type"))}
	}
	in.jsonErr = ""
	bs, ok := in.jsonValue(iv.t, iv.v)
	if !ok && in.jsonErr != "" {
		return TupleV{SliceV{}, in.newError(in.mkStr(in.jsonErr))}
	}
	if !ok {
		in.unsupported("json.Marshal of " + fmt.Sprint(iv.t))
	}
	return TupleV{in.byteSlice(bs), errNilIface}
}

// ---------- sort.Strings (in place insertion sort; forks on comparisons)

func iSortStrings(in *Interp, fn *ssa.Function, a []Value) Value {
	s := a[0].(SliceV)
	if s.len < 2 {
		return nil
	}
	es := append([]Value(nil), in.sliceElems(s)...)
	for i := 1; i < len(es); i++ {
		for j := i; j > 0; j-- {
			if in.branch(in.strLess(es[j].(StrV), es[j-1].(StrV))) {
				es[j], es[j-1] = es[j-1], es[j]
			} else {
				break
			}
		}
	}
	old := s.arr.v.(*ArrayV)
	ne := make([]Value, len(old.e))
	copy(ne, old.e)
	copy(ne[s.off:], es)
	s.arr.v = &ArrayV{e: ne}
	return nil
}

// ---------- sync.Mutex

func iMutexLock(in *Interp, fn *ssa.Function, a []Value) Value {
	p := a[0].(PtrV)
	if p.isNil() {
		in.goPanicf("runtime error: invalid memory address or nil pointer dereference (nil mutex)")
	}
	key := in.mutexKey(p)
	if in.sched != nil {
		in.yield()
		in.blockOn(key)
	} else if in.heldMutex[key] {
		panic(goPanic{msg: "fatal error: all goroutines are asleep - deadlock! (Lock of a locked mutex in a sequential run)", fn: "(*sync.Mutex).Lock"})
	}
	in.heldMutex[key] = true
	in.logEvent("acq", p)
	return nil
}

func iMutexUnlock(in *Interp, fn *ssa.Function, a []Value) Value {
	p := a[0].(PtrV)
	if p.isNil() {
		in.goPanicf("runtime error: invalid memory address or nil pointer dereference (nil mutex)")
	}
	key := in.mutexKey(p)
	if !in.heldMutex[key] {
		panic(goPanic{msg: "fatal error: sync: unlock of unlocked mutex", fn: "(*sync.Mutex).Unlock"})
	}
	in.logEvent("rel", p)
	delete(in.heldMutex, key)
	if in.sched != nil {
		in.yield()
	}
	return nil
}

// ---------- reflect subset

func iReflectTypeOf(in *Interp, fn *ssa.Function, a []Value) Value {
	iv := a[0].(IfaceV)
	if iv.t == nil {
		return IfaceV{}
	}
	return IfaceV{t: in.ld.rtypePtrT, v: &OpaqueV{kind: "rtype", data: iv.t}}
}

func iRtypeComparable(in *Interp, fn *ssa.Function, a []Value) Value {
	t := a[0].(*OpaqueV).data.(types.Type)
	return in.tt.Bool(types.Comparable(t))
}

func rtypeOf(v Value) types.Type { return v.(*OpaqueV).data.(types.Type) }

func iRtypeKind(in *Interp, fn *ssa.Function, a []Value) Value {
	return in.tt.Const(64, reflKind(rtypeOf(a[0])))
}

func iRtypeString(in *Interp, fn *ssa.Function, a []Value) Value {
	return in.mkStr(types.TypeString(rtypeOf(a[0]), func(p *types.Package) string { return p.Name() }))
}

func iRtypeName(in *Interp, fn *ssa.Function, a []Value) Value {
	switch t := rtypeOf(a[0]).(type) {
	case *types.Named:
		return in.mkStr(t.Obj().Name())
	case *types.Basic:
		return in.mkStr(t.Name())
	}
	return in.mkStr("")
}

func iRtypePkgPath(in *Interp, fn *ssa.Function, a []Value) Value {
	if t, ok := rtypeOf(a[0]).(*types.Named); ok && t.Obj().Pkg() != nil {
		return in.mkStr(t.Obj().Pkg().Path())
	}
	return in.mkStr("")
}

func iRtypeElem(in *Interp, fn *ssa.Function, a []Value) Value {
	var e types.Type
	switch u := rtypeOf(a[0]).Underlying().(type) {
	case *types.Pointer:
		e = u.Elem()
	case *types.Slice:
		e = u.Elem()
	case *types.Array:
		e = u.Elem()
	case *types.Map:
		e = u.Elem()
	case *types.Chan:
		e = u.Elem()
	default:
		panic(goPanic{msg: "panic: reflect: Elem of invalid type " + rtypeOf(a[0]).String(), fn: "reflect.Type.Elem"})
	}
	return IfaceV{t: in.ld.rtypePtrT, v: &OpaqueV{kind: "rtype", data: e}}
}

func iRtypeNumField(in *Interp, fn *ssa.Function, a []Value) Value {
	st, ok := rtypeOf(a[0]).Underlying().(*types.Struct)
	if !ok {
		panic(goPanic{msg: "panic: reflect: NumField of non-struct type " + rtypeOf(a[0]).String(), fn: "reflect.Type.NumField"})
	}
	return in.intTerm(st.NumFields())
}

// iRtypeField builds the reflect.StructField of field i (Name, PkgPath, Type, Tag, Index, Anonymous;
// Offset is left 0).
func iRtypeField(in *Interp, fn *ssa.Function, a []Value) Value {
	st, ok := rtypeOf(a[0]).Underlying().(*types.Struct)
	if !ok {
		panic(goPanic{msg: "panic: reflect: Field of non-struct type " + rtypeOf(a[0]).String(), fn: "reflect.Type.Field"})
	}
	i := in.intOf(a[1], "reflect.Type.Field index")
	if i < 0 || i >= st.NumFields() {
		panic(goPanic{msg: "panic: reflect: Field index out of bounds", fn: "reflect.Type.Field"})
	}
	rp := in.prog.ImportedPackage("reflect")
	if rp == nil {
		in.unsupported("reflect.Type.Field: package reflect not loaded")
	}
	sft := rp.Type("StructField").Type()
	sfs := sft.Underlying().(*types.Struct)
	f := st.Field(i)
	vals := append([]Value(nil), in.zero(sft).(*StructV).f...)
	for k := 0; k < sfs.NumFields(); k++ {
		switch sfs.Field(k).Name() {
		case "Name":
			vals[k] = in.mkStr(f.Name())
		case "PkgPath":
			if !f.Exported() && f.Pkg() != nil {
				vals[k] = in.mkStr(f.Pkg().Path())
			}
		case "Type":
			vals[k] = IfaceV{t: in.ld.rtypePtrT, v: &OpaqueV{kind: "rtype", data: f.Type()}}
		case "Tag":
			vals[k] = in.mkStr(st.Tag(i))
		case "Anonymous":
			vals[k] = in.tt.Bool(f.Embedded())
		}
	}
	return &StructV{f: vals}
}

func (in *Interp) numExportedMethods(t types.Type) int {
	ms := in.prog.MethodSets.MethodSet(t)
	n := 0
	for i := 0; i < ms.Len(); i++ {
		if ms.At(i).Obj().Exported() {
			n++
		}
	}
	return n
}

func iRtypeNumMethod(in *Interp, fn *ssa.Function, a []Value) Value {
	return in.intTerm(in.numExportedMethods(rtypeOf(a[0])))
}

func iReflType(in *Interp, fn *ssa.Function, a []Value) Value {
	r := a[0].(*ReflV)
	if r.zero {
		panic(goPanic{msg: "panic: reflect: call of reflect.Value.Type on zero Value", fn: "reflect.Value.Type"})
	}
	return IfaceV{t: in.ld.rtypePtrT, v: &OpaqueV{kind: "rtype", data: r.typ}}
}

func iReflNumMethod(in *Interp, fn *ssa.Function, a []Value) Value {
	r := a[0].(*ReflV)
	if r.zero {
		panic(goPanic{msg: "panic: reflect: call of reflect.Value.NumMethod on zero Value", fn: "reflect.Value.NumMethod"})
	}
	return in.intTerm(in.numExportedMethods(r.typ))
}

func iReflCanInterface(in *Interp, fn *ssa.Function, a []Value) Value {
	r := a[0].(*ReflV)
	if r.zero {
		panic(goPanic{msg: "panic: reflect: call of reflect.Value.CanInterface on zero Value", fn: "reflect.Value.CanInterface"})
	}
	return in.tt.tT // values reached through unexported fields are outside the model (FieldByName/Field report them as supported only when exported)
}

func iReflCanAddr(in *Interp, fn *ssa.Function, a []Value) Value {
	return in.tt.Bool(a[0].(*ReflV).ptr != nil)
}

var kindNames = []string{"invalid", "bool", "int", "int8", "int16", "int32", "int64", "uint", "uint8", "uint16", "uint32", "uint64", "uintptr", "float32", "float64", "complex64", "complex128", "array", "chan", "func", "interface", "map", "ptr", "slice", "string", "struct", "unsafe.Pointer"}

func iKindString(in *Interp, fn *ssa.Function, a []Value) Value {
	k := in.concretize(a[0].(*Term), "reflect.Kind")
	if k >= 0 && int(k) < len(kindNames) {
		return in.mkStr(kindNames[k])
	}
	return in.mkStr("kind" + strconv.Itoa(int(k)))
}

func iReflectValueOf(in *Interp, fn *ssa.Function, a []Value) Value {
	iv := a[0].(IfaceV)
	if iv.t == nil {
		return &ReflV{zero: true}
	}
	return &ReflV{val: iv.v, typ: iv.t}
}

func reflKind(t types.Type) uint64 {
	switch u := t.Underlying().(type) {
	case *types.Basic:
		switch u.Kind() {
		case types.Bool:
			return 1
		case types.Int:
			return 2
		case types.Int8:
			return 3
		case types.Int16:
			return 4
		case types.Int32:
			return 5
		case types.Int64:
			return 6
		case types.Uint:
			return 7
		case types.Uint8:
			return 8
		case types.Uint16:
			return 9
		case types.Uint32:
			return 10
		case types.Uint64:
			return 11
		case types.Uintptr:
			return 12
		case types.String:
			return 24
		}
	case *types.Array:
		return 17
	case *types.Signature:
		return 19
	case *types.Interface:
		return 20
	case *types.Map:
		return 21
	case *types.Pointer:
		return 22
	case *types.Slice:
		return 23
	case *types.Struct:
		return 25
	}
	return 0
}

func iReflKind(in *Interp, fn *ssa.Function, a []Value) Value {
	r := a[0].(*ReflV)
	if r.zero {
		return in.tt.Const(64, 0)
	}
	return in.tt.Const(64, reflKind(r.typ))
}

func iReflElem(in *Interp, fn *ssa.Function, a []Value) Value {
	r := a[0].(*ReflV)
	pt, ok := r.typ.Underlying().(*types.Pointer)
	if r.zero || !ok {
		in.unsupported("reflect.Value.Elem on non-pointer")
	}
	p := r.val.(PtrV)
	if p.isNil() {
		return &ReflV{zero: true}
	}
	return &ReflV{ptr: &p, typ: pt.Elem()}
}

func (r *ReflV) get() Value {
	if r.ptr != nil {
		return r.ptr.load()
	}
	return r.val
}

func iReflFieldByName(in *Interp, fn *ssa.Function, a []Value) Value {
	r := a[0].(*ReflV)
	name := in.concreteStr(a[1], "FieldByName")
	st, ok := r.typ.Underlying().(*types.Struct)
	if r.zero || !ok {
		panic(goPanic{msg: "panic: reflect: call of reflect.Value.FieldByName on non-struct Value", fn: "reflect.Value.FieldByName"})
	}
	for i := 0; i < st.NumFields(); i++ {
		if st.Field(i).Name() == name {
			if r.ptr != nil {
				p := r.ptr.sub(i)
				return &ReflV{ptr: &p, typ: st.Field(i).Type()}
			}
			return &ReflV{val: r.val.(*StructV).f[i], typ: st.Field(i).Type()}
		}
	}
	return &ReflV{zero: true}
}

func iReflLen(in *Interp, fn *ssa.Function, a []Value) Value {
	r := a[0].(*ReflV)
	if r.zero {
		panic(goPanic{msg: "panic: reflect: call of reflect.Value.Len on zero Value", fn: "reflect.Value.Len"})
	}
	switch v := r.get().(type) {
	case StrV:
		return in.intTerm(len(v.b))
	case SliceV:
		return in.intTerm(v.len)
	case *ArrayV:
		return in.intTerm(len(v.e))
	case *MapV:
		if v == nil {
			return in.intTerm(0)
		}
		return in.intTerm(len(v.keys))
	}
	panic(goPanic{msg: "panic: reflect: call of reflect.Value.Len on " + r.typ.String() + " Value", fn: "reflect.Value.Len"})
}

func iReflSet(in *Interp, fn *ssa.Function, a []Value) Value {
	r := a[0].(*ReflV)
	src := a[1].(*ReflV)
	if r.zero || r.ptr == nil {
		panic(goPanic{msg: "panic: reflect: reflect.Value.Set using unaddressable value", fn: "reflect.Value.Set"})
	}
	if src.zero || !types.AssignableTo(src.typ, r.typ) {
		panic(goPanic{msg: "panic: reflect.Set: value not assignable", fn: "reflect.Value.Set"})
	}
	in.logAccess("wr", *r.ptr)
	r.ptr.store(src.get())
	return nil
}

// ---------- event logging (schedule analysis)

func (in *Interp) logAccess(kind string, p PtrV) {
	if !in.traceOn || p.obj == nil {
		return
	}
	in.events = append(in.events, Event{Thread: in.curThread, Kind: kind, Obj: p.obj.id, Path: pathKey(p.path), PCLen: len(in.pc)})
	if p.obj == in.rwCond && in.rwCond != nil {
		in.logRunewidthGlobal(kind)
	}
}

// logObjRange logs a slice-level access to elements [lo,hi) of a backing array.
func (in *Interp) logObjRange(kind string, o *Obj, lo, hi int) {
	if !in.traceOn || o == nil || lo >= hi {
		return
	}
	in.events = append(in.events, Event{Thread: in.curThread, Kind: kind, Obj: o.id, Path: fmt.Sprintf("*%d:%d", lo, hi), PCLen: len(in.pc)})
}

func (in *Interp) logObj(kind string, o *Obj) {
	if !in.traceOn || o == nil {
		return
	}
	in.events = append(in.events, Event{Thread: in.curThread, Kind: kind, Obj: o.id, Path: "*", PCLen: len(in.pc)})
}

func (in *Interp) logMap(kind string, m *MapV) {
	if !in.traceOn || m == nil {
		return
	}
	in.events = append(in.events, Event{Thread: in.curThread, Kind: kind, Obj: -m.id, Path: "map", PCLen: len(in.pc)})
}

func (in *Interp) logEvent(kind string, p PtrV) {
	if !in.traceOn {
		return
	}
	in.events = append(in.events, Event{Thread: in.curThread, Kind: kind, Obj: p.obj.id, Path: pathKey(p.path), PCLen: len(in.pc)})
}

func pathKey(p []int) string {
	var sb strings.Builder
	for _, i := range p {
		sb.WriteString(strconv.Itoa(i))
		sb.WriteByte('.')
	}
	return sb.String()
}

