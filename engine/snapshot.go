package main

import "golang.org/x/tools/go/ssa"

// snapshot of the interpreter heap reachable from package-level variables after initialisation.
type snapshot struct {
	harness *ssa.Function
	globals map[*ssa.Global]*Obj
	nextObj int
	nextMap int
	fnSeen  map[*ssa.Function]int
	steps   int
	extInit map[*ssa.Package]bool
}

type cloner struct {
	objs map[*Obj]*Obj
	maps map[*MapV]*MapV
}

func (c *cloner) obj(o *Obj) *Obj {
	if o == nil {
		return nil
	}
	if n, ok := c.objs[o]; ok {
		return n
	}
	n := &Obj{id: o.id, typ: o.typ, tag: o.tag}
	c.objs[o] = n
	n.v, _ = c.val(o.v)
	return n
}

func (c *cloner) mapv(m *MapV) *MapV {
	if m == nil {
		return nil
	}
	if n, ok := c.maps[m]; ok {
		return n
	}
	n := &MapV{id: m.id, kt: m.kt, vt: m.vt}
	c.maps[m] = n
	n.keys = make([]Value, len(m.keys))
	n.vals = make([]Value, len(m.vals))
	for i := range m.keys {
		n.keys[i], _ = c.val(m.keys[i])
		n.vals[i], _ = c.val(m.vals[i])
	}
	return n
}

// val clones a value; changed=false means the original (immutable, reference-free) value is shared.
func (c *cloner) val(v Value) (Value, bool) {
	switch x := v.(type) {
	case nil, *Term, StrV, *OpaqueV:
		return v, false
	case *StructV:
		var nf []Value
		for i, f := range x.f {
			nv, ch := c.val(f)
			if ch && nf == nil {
				nf = make([]Value, len(x.f))
				copy(nf, x.f[:i])
			}
			if nf != nil {
				nf[i] = nv
			}
		}
		if nf == nil {
			return v, false
		}
		return &StructV{f: nf}, true
	case *ArrayV:
		var ne []Value
		for i, e := range x.e {
			nv, ch := c.val(e)
			if ch && ne == nil {
				ne = make([]Value, len(x.e))
				copy(ne, x.e[:i])
			}
			if ne != nil {
				ne[i] = nv
			}
		}
		if ne == nil {
			return v, false
		}
		return &ArrayV{e: ne}, true
	case PtrV:
		if x.obj == nil {
			return v, false
		}
		return PtrV{obj: c.obj(x.obj), path: x.path}, true
	case SliceV:
		if x.arr == nil {
			return v, false
		}
		return SliceV{arr: c.obj(x.arr), off: x.off, len: x.len, cap: x.cap}, true
	case IfaceV:
		nv, ch := c.val(x.v)
		if !ch {
			return v, false
		}
		return IfaceV{t: x.t, v: nv}, true
	case *MapV:
		if x == nil {
			return v, false
		}
		return c.mapv(x), true
	case FuncV:
		if len(x.env) == 0 {
			return v, false
		}
		ne := make([]Value, len(x.env))
		for i, e := range x.env {
			ne[i], _ = c.val(e)
		}
		return FuncV{fn: x.fn, env: ne}, true
	case TupleV:
		nt := make(TupleV, len(x))
		for i, e := range x {
			nt[i], _ = c.val(e)
		}
		return nt, true
	}
	panic(engineErr{kind: "INTERNAL", msg: "snapshot: cannot clone value"})
}

func cloneGlobals(src map[*ssa.Global]*Obj) map[*ssa.Global]*Obj {
	c := &cloner{objs: map[*Obj]*Obj{}, maps: map[*MapV]*MapV{}}
	out := make(map[*ssa.Global]*Obj, len(src))
	for g, o := range src {
		out[g] = c.obj(o)
	}
	return out
}

func (in *Interp) takeSnapshot(h *ssa.Function) {
	defer func() {
		if r := recover(); r != nil {
			in.noSnap = true
			in.snap = nil
		}
	}()
	sn := &snapshot{harness: h, nextObj: in.nextObj, nextMap: in.nextMap, steps: in.steps, fnSeen: map[*ssa.Function]int{}}
	for f, n := range in.fnSeen {
		sn.fnSeen[f] = n
	}
	sn.globals = cloneGlobals(in.globals)
	sn.extInit = map[*ssa.Package]bool{}
	for k, v := range in.extInit {
		sn.extInit[k] = v
	}
	in.snap = sn
}

func (in *Interp) restoreSnapshot() {
	in.globals = cloneGlobals(in.snap.globals)
	in.rwCond = nil
	in.nextObj = in.snap.nextObj
	in.nextMap = in.snap.nextMap
	in.steps = in.snap.steps
	for k, v := range in.snap.extInit {
		in.extInit[k] = v
	}
	for f, n := range in.snap.fnSeen {
		in.fnSeen[f] = n
	}
}
