package main

import (
	"sync"
	"fmt"
	"go/constant"
	"go/token"
	"go/types"
	"sort"
	"strconv"
	"strings"

	"golang.org/x/tools/go/ssa"
)

// ---------- exceptional control flow (Go panics carrying these)

type pathAbort struct{ reason string } // path ends silently (infeasible / assumption false)

type goPanic struct { // a run-time panic in the program under test
	msg string
	fn  string
	pos string
	val Value // the value given to panic(), if any (what recover() returns)
}

type engineErr struct { // engine problem: unsupported, bound exceeded, nondeterminism
	kind string
	msg  string
}

type Decision struct {
	Kind byte  // 'B' branch, 'C' choice, 'V' value, 'A' assert
	Val  int64 // B: 1 true / 0 false; C: index; V: value; A: 0 held, 1 violated(then assumed), 2 violated and cannot continue
}

type Violation struct {
	Label string
	Model map[string]uint64
	Kind  string // "assert" | "panic"
	Msg   string
}

type fnInfo struct {
	idx map[ssa.Value]int
	n   int
}

func (in *Interp) infoFor(fn *ssa.Function) *fnInfo {
	if fi, ok := in.fnInfos[fn]; ok {
		return fi
	}
	fi := &fnInfo{idx: map[ssa.Value]int{}}
	add := func(v ssa.Value) {
		if _, ok := fi.idx[v]; !ok {
			fi.idx[v] = fi.n
			fi.n++
		}
	}
	for _, p := range fn.Params {
		add(p)
	}
	for _, fv := range fn.FreeVars {
		add(fv)
	}
	for _, b := range fn.Blocks {
		for _, ins := range b.Instrs {
			if v, ok := ins.(ssa.Value); ok {
				add(v)
			}
		}
	}
	in.fnInfos[fn] = fi
	return fi
}

type frame struct {
	fn     *ssa.Function
	fi     *fnInfo
	locals []Value
	set    []bool
	defers []func()
	env    []Value
	prev   *ssa.BasicBlock
}

type Interp struct {
	panicking *goPanic // set while deferred calls run because of a panic (recover() clears it)
	rwCond *Obj // the Condition object behind go-runewidth's DefaultCondition (created on first use in a path)
	jsonErr string // set by jsonValue when encoding/json rejects a value (NaN, infinities)
	prog    *ssa.Program
	ld      *Loaded
	tt      *TermTable
	solver  *Solver
	globals map[*ssa.Global]*Obj
	nextObj int
	nextMap int

	// path state
	pc        []*Term
	pcSet     map[int]bool
	prefix    []Decision
	decisions []Decision
	newWork   []workItem
	steps     int
	maxSteps  int
	depth     int

	inputs     []*Term           // input variables created on this path, in order
	inputKinds map[string]string // name -> "int"/"byte"/"bool"/"str:<n>"/"choice"
	strInputs  map[string][]*Term
	choiceVals map[string]int64
	observes   []Observation
	reached    map[string]bool
	violations []Violation
	asserts    map[string]int // label -> times checked (this path)
	fnSeen     map[*ssa.Function]int
	events     []Event // for schedule analysis
	curThread  int
	traceOn    bool

	unknowns int
	stats    struct {
		feasQ, assertQ, cacheHits int
	}
	qcache   map[string]string
	cacheBytes int // bytes held by qcache/ecache keys (bounds memory: see Explore)
	ecache   map[string][]int64
	varCache map[int][]int
	varIDs   map[string]int
	fnInfos  map[*ssa.Function]*fnInfo
	fnMetas  map[*ssa.Function]*fnMeta
	pcEq     map[int]uint64
	raceCache map[string]string
	raceStats struct{ sharedObjs, candidatePairs, queries, discharged int }
	pcNe     map[int][]uint64
	snap     *snapshot
	noSnap   bool
	cfg      *Config
	// per-run scratch for harness intrinsics
	ufDecl      map[string]bool
	stack       []string
	inputOrder  []string
	strOrder    []string
	choiceOrder []string
	tags        []string
	fmtLenient  bool
	parRegions  int
	extInit     map[*ssa.Package]bool
	runningExtInit int
	onceDone    map[string]bool
	sched       *sched
	atomicSeq   int
	approxFmt   int
	syncMaps    map[string]*MapV
	pools       map[string][]Value
	readers     map[string]int
	lastStore   map[string]int
	heldMutex   map[string]bool
	violCount   map[string]int
}

type Observation struct {
	Label string
	V     Value
}

type Event struct {
	Thread int
	Kind   string // acq rel rd wr
	Obj    int
	Path   string
	PCLen  int
	Seq    int // atomic store: its id; atomic load: id of the store it observed (0 = initial value)
}

func (in *Interp) unsupported(msg string) {
	panic(engineErr{kind: "UNSUPPORTED", msg: msg + " [in " + strings.Join(in.stack, " < ") + "]"})
}

func (in *Interp) goPanicf(format string, a ...interface{}) {
	fn := ""
	if len(in.stack) > 0 {
		fn = in.stack[len(in.stack)-1]
	}
	// attribute to the innermost function of the module under test (not harness helper)
	panic(goPanic{msg: fmt.Sprintf(format, a...), fn: fn})
}

// ---------- path condition & decisions

func (in *Interp) addPC(t *Term) {
	if t.IsTrue() {
		return
	}
	if t.op == OpBAnd {
		for _, a := range t.args {
			in.addPC(a)
		}
		return
	}
	if in.pcSet[t.id] {
		return
	}
	in.pcSet[t.id] = true
	in.pc = append(in.pc, t)
	// remember (dis)equalities of byte variables with constants for PC-aware library models
	if t.op == OpEq && t.args[0].op == OpVar && t.args[1].op == OpConst && t.args[0].sort == 8 {
		in.pcEq[t.args[0].id] = t.args[1].val
	} else if t.op == OpBNot && t.args[0].op == OpEq && t.args[0].args[0].op == OpVar && t.args[0].args[1].op == OpConst && t.args[0].args[0].sort == 8 {
		v := t.args[0].args[0]
		in.pcNe[v.id] = append(in.pcNe[v.id], t.args[0].args[1].val)
	}
}

// byteClass reports what the path condition and the domain say about a byte term:
// known value, or whether every remaining value is printable ASCII / ASCII.
func (in *Interp) byteClass(b *Term) (val uint64, known, allPrintable, nonePrintable, allASCII bool) {
	if b.op == OpConst {
		p := b.val >= 0x20 && b.val <= 0x7e
		return b.val, true, p, !p, b.val < 0x80
	}
	if b.op != OpVar {
		return 0, false, false, false, false
	}
	if v, ok := in.pcEq[b.id]; ok {
		p := v >= 0x20 && v <= 0x7e
		return v, true, p, !p, v < 0x80
	}
	if b.dom == nil || !b.dom.isBits {
		return 0, false, false, false, false
	}
	ne := in.pcNe[b.id]
	allPrintable, nonePrintable, allASCII = true, true, true
	cnt := 0
	var last uint64
	for v := uint64(0); v < 256; v++ {
		if !b.dom.has(v) {
			continue
		}
		excluded := false
		for _, x := range ne {
			if x == v {
				excluded = true
				break
			}
		}
		if excluded {
			continue
		}
		cnt++
		last = v
		if v >= 0x20 && v <= 0x7e {
			nonePrintable = false
		} else {
			allPrintable = false
		}
		if v >= 0x80 {
			allASCII = false
		}
	}
	if cnt == 1 {
		return last, true, allPrintable, nonePrintable, allASCII
	}
	return 0, false, allPrintable, nonePrintable, allASCII
}

func (in *Interp) syncSolver() {
	for in.solver.asserted < len(in.pc) {
		in.solver.Assert(in.pc[in.solver.asserted])
		in.solver.asserted++
	}
}

// termVars returns the (cached) set of variable/UF names of a term as small integer ids.
func (in *Interp) termVars(t *Term) []int {
	if vs, ok := in.varCache[t.id]; ok {
		return vs
	}
	vars := map[string]*Term{}
	ufs := map[string]bool{}
	in.tt.Collect(t, vars, ufs, map[int]bool{})
	var out []int
	for n := range vars {
		out = append(out, in.varID("v:"+n))
	}
	for n := range ufs {
		out = append(out, in.varID("f:"+n))
	}
	in.varCache[t.id] = out
	return out
}

func (in *Interp) varID(n string) int {
	if id, ok := in.varIDs[n]; ok {
		return id
	}
	id := len(in.varIDs) + 1
	in.varIDs[n] = id
	return id
}

// sliceFor returns the conjuncts of the path condition that share variables (transitively) with t.
// Because the path condition is satisfiable by invariant, the rest cannot affect the verdict.
func (in *Interp) sliceFor(t *Term) []*Term {
	want := map[int]bool{}
	for _, v := range in.termVars(t) {
		want[v] = true
	}
	taken := make([]bool, len(in.pc))
	var out []*Term
	for changed := true; changed; {
		changed = false
		for i, c := range in.pc {
			if taken[i] {
				continue
			}
			vs := in.termVars(c)
			hit := false
			for _, v := range vs {
				if want[v] {
					hit = true
					break
				}
			}
			if hit {
				taken[i] = true
				out = append(out, c)
				for _, v := range vs {
					if !want[v] {
						want[v] = true
						changed = true
					}
				}
			}
		}
	}
	return out
}

func queryKey(sl []*Term, t *Term) string {
	ids := make([]int, len(sl))
	for i, c := range sl {
		ids[i] = c.id
	}
	sort.Ints(ids)
	var sb strings.Builder
	for _, id := range ids {
		sb.WriteString(strconv.Itoa(id))
		sb.WriteByte(',')
	}
	sb.WriteByte('|')
	sb.WriteString(strconv.Itoa(t.id))
	return sb.String()
}

// feasible checks PC ∧ t. Returns "sat"/"unsat"/"unknown".
func (in *Interp) feasible(t *Term) string {
	if t.IsTrue() {
		return "sat"
	}
	if t.IsFalse() {
		return "unsat"
	}
	sl := in.sliceFor(t)
	key := queryKey(sl, t)
	if r, ok := in.qcache[key]; ok {
		in.stats.cacheHits++
		return r
	}
	if qstat != nil && len(in.stack) > 0 {
		qstatMu.Lock()
		qstat[in.stack[len(in.stack)-1]+" :: "+in.tt.SMT(t)[:min(60, len(in.tt.SMT(t)))]]++
		qstatMu.Unlock()
	}
	in.solver.Push()
	for _, c := range sl {
		in.solver.Assert(c)
	}
	in.solver.Assert(t)
	r := in.solver.Check()
	in.solver.Pop()
	in.stats.feasQ++
	if r == "unknown" {
		in.unknowns++
	} else {
		in.qcache[key] = r
		in.cacheBytes += len(key) + 16
	}
	return r
}

func (in *Interp) nextPrefix(kind byte) (Decision, bool) {
	n := len(in.decisions)
	if n < len(in.prefix) {
		d := in.prefix[n]
		if d.Kind != kind {
			panic(engineErr{kind: "NONDETERMINISM", msg: fmt.Sprintf("decision %d kind %c on replay, expected %c", n, kind, d.Kind)})
		}
		return d, true
	}
	return Decision{}, false
}

// workItem is an unexplored alternative: the decisions of the path that found it up to the fork (shared,
// never written again) followed by the other decision.
type workItem struct {
	base []Decision
	last Decision
}

func (w workItem) prefix() []Decision {
	if w.base == nil && w.last.Kind == 0 {
		return nil
	}
	p := make([]Decision, len(w.base)+1)
	copy(p, w.base)
	p[len(w.base)] = w.last
	return p
}

func (in *Interp) pushAlt(d Decision) {
	n := len(in.decisions)
	in.newWork = append(in.newWork, workItem{base: in.decisions[:n:n], last: d})
}

// branch decides a boolean term on this path (forking if both sides are feasible).
func (in *Interp) branch(c *Term) bool {
	if c.sort != 0 {
		panic("branch on non-bool")
	}
	if c.op == OpConst {
		return c.val != 0
	}
	if in.pcSet[c.id] {
		return true
	}
	nc := in.tt.Not(c)
	if in.pcSet[nc.id] {
		return false
	}
	if d, ok := in.nextPrefix('B'); ok {
		in.decisions = append(in.decisions, d)
		if d.Val != 0 {
			in.addPC(c)
			return true
		}
		in.addPC(nc)
		return false
	}
	rt := in.feasible(c)
	var rf string
	if rt == "unsat" {
		rf = "sat" // PC is satisfiable by invariant
	} else {
		rf = in.feasible(nc)
	}
	switch {
	case rt != "unsat" && rf != "unsat":
		in.pushAlt(Decision{'B', 0})
		in.decisions = append(in.decisions, Decision{'B', 1})
		in.addPC(c)
		return true
	case rt != "unsat":
		in.decisions = append(in.decisions, Decision{'B', 1})
		in.addPC(c)
		return true
	default:
		in.decisions = append(in.decisions, Decision{'B', 0})
		in.addPC(nc)
		return false
	}
}

// choice forks n ways on a concrete selector (no solver involved).
func (in *Interp) choice(n int) int {
	if n <= 0 {
		panic(pathAbort{"empty choice"})
	}
	if n == 1 {
		return 0
	}
	if d, ok := in.nextPrefix('C'); ok {
		in.decisions = append(in.decisions, d)
		return int(d.Val)
	}
	for k := n - 1; k >= 1; k-- {
		in.pushAlt(Decision{'C', int64(k)})
	}
	in.decisions = append(in.decisions, Decision{'C', 0})
	return 0
}

// concretize enumerates the feasible values of a BV term (signed view), forking on each.
func (in *Interp) concretize(t *Term, what string) int64 {
	if t.op == OpConst {
		return signExt(t.val, t.sort)
	}
	if d, ok := in.nextPrefix('V'); ok {
		in.decisions = append(in.decisions, d)
		in.addPC(in.tt.Bin(OpEq, t, in.tt.Const(t.sort, uint64(d.Val))))
		return d.Val
	}
	limit := in.cfg.EnumCap
	var found []int64
	sl := in.sliceFor(t)
	ekey := queryKey(sl, t) + "#enum"
	if cached, ok := in.ecache[ekey]; ok {
		in.stats.cacheHits++
		found = append(found, cached...)
	} else {
		in.solver.Push()
		for _, c := range sl {
			in.solver.Assert(c)
		}
		inconclusive := false
		for {
			r := in.solver.Check()
			in.stats.feasQ++
			if r == "unknown" {
				in.unknowns++
				inconclusive = true
				break
			}
			if r != "sat" {
				break
			}
			vals := in.evalInSolver(t)
			found = append(found, vals)
			if len(found) > limit {
				in.solver.Pop()
				panic(engineErr{kind: "BOUND-EXCEEDED", msg: fmt.Sprintf("more than %d values for symbolic %s", limit, what)})
			}
			in.solver.Assert(in.tt.Not(in.tt.Bin(OpEq, t, in.tt.Const(t.sort, uint64(vals)))))
		}
		in.solver.Pop()
		sortInt64(found)
		if !inconclusive {
			in.ecache[ekey] = append([]int64(nil), found...)
			in.cacheBytes += len(ekey) + 8*len(found) + 16
		}
	}
	if len(found) == 0 {
		panic(pathAbort{"no value"})
	}
	for k := len(found) - 1; k >= 1; k-- {
		in.pushAlt(Decision{'V', found[k]})
	}
	in.decisions = append(in.decisions, Decision{'V', found[0]})
	in.addPC(in.tt.Bin(OpEq, t, in.tt.Const(t.sort, uint64(found[0]))))
	return found[0]
}

func sortInt64(a []int64) {
	for i := 1; i < len(a); i++ {
		for j := i; j > 0 && a[j] < a[j-1]; j-- {
			a[j], a[j-1] = a[j-1], a[j]
		}
	}
}

// evalInSolver returns the value of t in the solver's current model (signed view).
func (in *Interp) evalInSolver(t *Term) int64 {
	vars := map[string]*Term{}
	in.tt.Collect(t, vars, map[string]bool{}, map[int]bool{})
	var vl []*Term
	for _, v := range vars {
		vl = append(vl, v)
	}
	m := in.solver.Values(vl)
	// UFs: the solver's interpretation may differ from the real function; for enumeration we
	// only need *a* candidate value, correctness is restored by the asserted equality.
	hasUF := false
	ufs := map[string]bool{}
	in.tt.Collect(t, map[string]*Term{}, ufs, map[int]bool{})
	if len(ufs) > 0 {
		hasUF = true
	}
	_ = hasUF
	return signExt(in.tt.Eval(t, m), t.sort)
}

func (in *Interp) model() (map[string]uint64, bool) {
	in.solver.Push()
	defer in.solver.Pop()
	in.solver.asserted = 0
	in.syncSolver()
	r := in.solver.Check()
	in.stats.feasQ++
	if r != "sat" {
		if r == "unknown" {
			in.unknowns++
		}
		return nil, false
	}
	return in.solver.Values(in.inputs), true
}

// assert checks that c holds on every completion of this path.
func (in *Interp) assert(c *Term, label string) {
	in.asserts[label]++
	if c.IsTrue() {
		return
	}
	if d, ok := in.nextPrefix('A'); ok {
		in.decisions = append(in.decisions, d)
		if d.Val == 2 {
			panic(pathAbort{"assert violated on all completions"})
		}
		in.addPC(c)
		return
	}
	if c.IsFalse() {
		m, ok := in.model()
		if !ok {
			panic(pathAbort{"assert(false) on infeasible/unknown path"})
		}
		in.violations = append(in.violations, Violation{Label: label, Model: m, Kind: "assert"})
		in.decisions = append(in.decisions, Decision{'A', 2})
		panic(pathAbort{"assert violated"})
	}
	nc := in.tt.Not(c)
	r := in.feasible(nc)
	in.stats.assertQ++
	if r == "unknown" {
		in.decisions = append(in.decisions, Decision{'A', 0})
		in.addPC(c)
		return
	}
	if r == "unsat" {
		in.decisions = append(in.decisions, Decision{'A', 0})
		in.addPC(c) // harmless, helps later simplification
		return
	}
	// violated: fetch a model of the whole path condition with the negated assertion
	in.violCount[label]++
	if in.violCount[label] > in.cfg.ViolCap {
		// enough witnesses for this label: count it, skip the model
		in.violations = append(in.violations, Violation{Label: label, Kind: "assert", Model: nil})
		if in.feasible(c) == "unsat" {
			in.decisions = append(in.decisions, Decision{'A', 2})
			panic(pathAbort{"assert violated on all completions"})
		}
		in.decisions = append(in.decisions, Decision{'A', 1})
		in.addPC(c)
		return
	}
	in.solver.Push()
	in.solver.asserted = 0
	in.syncSolver()
	in.solver.Assert(nc)
	if in.solver.Check() != "sat" {
		in.solver.Pop()
		in.unknowns++
		in.decisions = append(in.decisions, Decision{'A', 0})
		in.addPC(c)
		return
	}
	m := in.solver.Values(in.inputs)
	in.solver.Pop()
	in.violations = append(in.violations, Violation{Label: label, Model: m, Kind: "assert"})
	if in.feasible(c) == "unsat" {
		in.decisions = append(in.decisions, Decision{'A', 2})
		panic(pathAbort{"assert violated on all completions"})
	}
	in.decisions = append(in.decisions, Decision{'A', 1})
	in.addPC(c)
}

func (in *Interp) assume(c *Term) {
	if c.IsTrue() {
		return
	}
	if c.IsFalse() {
		panic(pathAbort{"assume false"})
	}
	if len(in.decisions) < len(in.prefix) {
		// replaying: the path got further than this, so it was feasible
		in.addPC(c)
		return
	}
	if in.feasible(c) == "unsat" {
		panic(pathAbort{"assume infeasible"})
	}
	in.addPC(c)
}

// ---------- evaluation of SSA values

func (in *Interp) constValue(c *ssa.Const) Value {
	t := c.Type()
	if c.Value == nil {
		return in.zero(t)
	}
	switch u := t.Underlying().(type) {
	case *types.Basic:
		if u.Info()&types.IsString != 0 {
			return in.mkStr(constant.StringVal(c.Value))
		}
		if u.Info()&types.IsBoolean != 0 {
			return in.tt.Bool(constant.BoolVal(c.Value))
		}
		if u.Info()&types.IsInteger != 0 {
			s, _, _ := basicSort(u)
			if v, ok := constant.Int64Val(constant.ToInt(c.Value)); ok {
				return in.tt.Const(s, uint64(v))
			}
			v, _ := constant.Uint64Val(constant.ToInt(c.Value))
			return in.tt.Const(s, v)
		}
		if u.Info()&types.IsFloat != 0 {
			f, _ := constant.Float64Val(c.Value)
			if u.Kind() == types.Float32 {
				f32, _ := constant.Float32Val(c.Value)
				f = float64(f32)
			}
			return &OpaqueV{kind: "float", data: f}
		}
	case *types.Interface:
		// constant converted to interface cannot happen (MakeInterface is explicit)
	}
	in.unsupported("constant of type " + t.String())
	return nil
}

func (in *Interp) get(fr *frame, v ssa.Value) Value {
	switch x := v.(type) {
	case *ssa.Const:
		return in.constValue(x)
	case *ssa.Global:
		if x.Pkg != nil && !in.ld.isModulePkg(x.Pkg.Pkg) && !lazyInitPkgs[x.Pkg.Pkg.Path()] && in.runningExtInit == 0 {
			// package-level state of a library whose initialiser the engine does not run
			if !benignGlobals[x.Pkg.Pkg.Path()] && x.String() != runewidthDefaultCondition {
				in.unsupported("package-level variable of a library outside the model: " + x.String())
			}
		}
		return PtrV{obj: in.global(x)}
	case *ssa.Function:
		return FuncV{fn: x}
	case *ssa.Builtin:
		in.unsupported("builtin as value " + x.Name())
	}
	i, ok := fr.fi.idx[v]
	if !ok || !fr.set[i] {
		in.unsupported(fmt.Sprintf("unset SSA value %s in %s", v.Name(), fr.fn))
	}
	return fr.locals[i]
}

func (in *Interp) global(g *ssa.Global) *Obj {
	if o, ok := in.globals[g]; ok {
		return o
	}
	et := g.Type().(*types.Pointer).Elem()
	o := in.newObj(et, in.zero(et), "global "+g.String())
	if g.String() == runewidthDefaultCondition {
		// *Condition pointing at the package's condition object, as go-runewidth's init leaves it in a
		// non-East-Asian environment (harnesses make the flag an input with vfRunewidthEastAsian)
		ct := et.(*types.Pointer).Elem()
		sv := in.zero(ct).(*StructV)
		st := ct.Underlying().(*types.Struct)
		nf := append([]Value(nil), sv.f...)
		for i := 0; i < st.NumFields(); i++ {
			if st.Field(i).Name() == "StrictEmojiNeutral" {
				nf[i] = in.tt.tT
			}
		}
		in.rwCond = in.newObj(ct, &StructV{f: nf}, "runewidth condition")
		o.v = PtrV{obj: in.rwCond}
	}
	in.globals[g] = o
	return o
}

const runewidthDefaultCondition = "github.com/mattn/go-runewidth.DefaultCondition"

// rwEastAsian returns the current value of DefaultCondition.EastAsianWidth (false unless the code or
// the harness set it).
func (in *Interp) rwEastAsian() *Term {
	if in.rwCond == nil {
		return in.tt.tF
	}
	sv := in.rwCond.v.(*StructV)
	st := in.rwCond.typ.Underlying().(*types.Struct)
	for i := 0; i < st.NumFields(); i++ {
		if st.Field(i).Name() == "EastAsianWidth" {
			return sv.f[i].(*Term)
		}
	}
	return in.tt.tF
}

// setRwEastAsian stores the flag (harness: the environment chose it before the program started).
func (in *Interp) setRwEastAsian(b *Term) {
	if in.rwCond == nil {
		for _, pkg := range in.ld.prog.AllPackages() {
			if pkg.Pkg.Path() == "github.com/mattn/go-runewidth" {
				if g, ok := pkg.Members["DefaultCondition"].(*ssa.Global); ok {
					in.global(g)
				}
			}
		}
	}
	if in.rwCond == nil {
		in.unsupported("go-runewidth is not part of the program")
	}
	sv := in.rwCond.v.(*StructV)
	st := in.rwCond.typ.Underlying().(*types.Struct)
	nf := append([]Value(nil), sv.f...)
	for i := 0; i < st.NumFields(); i++ {
		if st.Field(i).Name() == "EastAsianWidth" {
			nf[i] = b
		}
	}
	in.rwCond.v = &StructV{f: nf}
}

// ---------- equality

func (in *Interp) valueEq(a, b Value) *Term {
	switch x := a.(type) {
	case *Term:
		y := b.(*Term)
		return in.tt.Bin(OpEq, x, y)
	case StrV:
		y := b.(StrV)
		if len(x.b) != len(y.b) {
			return in.tt.tF
		}
		cs := make([]*Term, len(x.b))
		for i := range x.b {
			cs[i] = in.tt.Bin(OpEq, x.b[i], y.b[i])
			if cs[i].IsFalse() {
				return in.tt.tF
			}
		}
		return in.tt.And(cs...)
	case PtrV:
		y, ok := b.(PtrV)
		if !ok {
			return in.tt.tF
		}
		return in.tt.Bool(ptrEq(x, y))
	case *StructV:
		y := b.(*StructV)
		cs := make([]*Term, 0, len(x.f))
		for i := range x.f {
			c := in.valueEq(x.f[i], y.f[i])
			if c.IsFalse() {
				return c
			}
			cs = append(cs, c)
		}
		return in.tt.And(cs...)
	case *ArrayV:
		y := b.(*ArrayV)
		cs := make([]*Term, 0, len(x.e))
		for i := range x.e {
			c := in.valueEq(x.e[i], y.e[i])
			if c.IsFalse() {
				return c
			}
			cs = append(cs, c)
		}
		return in.tt.And(cs...)
	case IfaceV:
		y, ok := b.(IfaceV)
		if !ok {
			in.unsupported("comparison of interface with non-interface")
		}
		if x.t == nil || y.t == nil {
			return in.tt.Bool(x.t == nil && y.t == nil)
		}
		if !types.Identical(x.t, y.t) {
			return in.tt.tF
		}
		if !types.Comparable(x.t) {
			in.goPanicf("runtime error: comparing uncomparable type %s", x.t)
		}
		return in.valueEq(x.v, y.v)
	case *MapV:
		y, _ := b.(*MapV)
		return in.tt.Bool(x == y)
	case SliceV:
		y := b.(SliceV)
		// only comparison with nil is legal
		if x.arr == nil || y.arr == nil {
			return in.tt.Bool(x.arr == nil && y.arr == nil)
		}
		in.unsupported("slice comparison")
	case FuncV:
		y := b.(FuncV)
		return in.tt.Bool(x.fn == nil && y.fn == nil)
	case *OpaqueV:
		y, ok := b.(*OpaqueV)
		if ok && x.kind == "float" && y.kind == "float" && x.data != nil && y.data != nil {
			return in.tt.Bool(x.data.(float64) == y.data.(float64))
		}
		if ok && x.kind == "rtype" && y.kind == "rtype" {
			// reflect.Type values are canonical: equal exactly when they denote the same type
			return in.tt.Bool(types.Identical(x.data.(types.Type), y.data.(types.Type)))
		}
		return in.tt.Bool(ok && x == y)
	}
	in.unsupported(fmt.Sprintf("equality on %T", a))
	return nil
}

// ---------- strings with symbolic bytes

func (in *Interp) strLess(a, b StrV) *Term { // a < b lexicographically (byte-wise unsigned)
	// build from the end
	n := len(a.b)
	if len(b.b) < n {
		n = len(b.b)
	}
	// base: all first n equal -> len(a) < len(b)
	res := in.tt.Bool(len(a.b) < len(b.b))
	for i := n - 1; i >= 0; i-- {
		lt := in.tt.Bin(OpUlt, a.b[i], b.b[i])
		eq := in.tt.Bin(OpEq, a.b[i], b.b[i])
		res = in.tt.Or(lt, in.tt.And(eq, res))
	}
	return res
}

// ---------- function execution

type fnMeta struct {
	name   string
	intr   intrinsic
	module bool
}

// callFnRaw interprets fn without consulting the intrinsic table (used for package initialisers).
func (in *Interp) callFnRaw(fn *ssa.Function, args []Value, env []Value) Value {
	in.stack = append(in.stack, fn.String())
	fi := in.infoFor(fn)
	fr := &frame{fn: fn, fi: fi, locals: make([]Value, fi.n), set: make([]bool, fi.n), env: env}
	r := in.run(fr)
	in.stack = in.stack[:len(in.stack)-1]
	return r
}

func (in *Interp) metaFor(fn *ssa.Function) *fnMeta {
	if m, ok := in.fnMetas[fn]; ok {
		return m
	}
	m := &fnMeta{name: fn.String(), intr: in.lookupIntrinsic(fn), module: fn.Pkg != nil && in.ld.isModulePkg(fn.Pkg.Pkg)}
	in.fnMetas[fn] = m
	return m
}

func (in *Interp) callFn(fn *ssa.Function, args []Value, env []Value) Value {
	meta := in.metaFor(fn)
	if h := meta.intr; h != nil {
		in.stack = append(in.stack, meta.name)
		r := h(in, fn, args)
		in.stack = in.stack[:len(in.stack)-1]
		return r
	}
	if len(fn.Blocks) == 0 {
		in.unsupported("call to body-less function " + fn.String())
	}
	if fn.Pkg != nil && !meta.module {
		in.ensureExtInit(fn)
	}
	in.fnSeen[fn]++
	in.depth++
	if in.depth > 200 {
		panic(engineErr{kind: "BOUND-EXCEEDED", msg: "call depth > 200 in " + fn.String()})
	}
	in.stack = append(in.stack, meta.name)
	fi := in.infoFor(fn)
	fr := &frame{fn: fn, fi: fi, locals: make([]Value, fi.n), set: make([]bool, fi.n), env: env}
	for i, p := range fn.Params {
		fr.setv(p, args[i])
	}
	for i, fv := range fn.FreeVars {
		fr.setv(fv, env[i])
	}
	r := in.runWithDefers(fr)
	in.stack = in.stack[:len(in.stack)-1]
	in.depth--
	return r
}

// runWithDefers runs a frame; when the program under test panics inside it, the frame's deferred calls
// run (as in Go), and if one of them recovers, execution continues at the function's recover block
// (named results as they stand) - otherwise the panic travels on to the caller.
func (in *Interp) runWithDefers(fr *frame) (result Value) {
	depth, nstack := in.depth, len(in.stack)
	defer func() {
		r := recover()
		if r == nil {
			return
		}
		gp, ok := r.(goPanic)
		if !ok || len(fr.defers) == 0 {
			panic(r)
		}
		in.depth, in.stack = depth, in.stack[:nstack]
		saved := in.panicking
		in.panicking = &gp
		ds := fr.defers
		fr.defers = nil
		for i := len(ds) - 1; i >= 0; i-- {
			ds[i]() // a panic in a deferred call replaces the current one (travels up from here)
		}
		recovered := in.panicking == nil
		in.panicking = saved
		if !recovered {
			panic(gp)
		}
		if fr.fn.Recover == nil {
			result = in.zeroResults(fr.fn)
			return
		}
		result = in.runFrom(fr, fr.fn.Recover)
	}()
	return in.run(fr)
}

func (in *Interp) zeroResults(fn *ssa.Function) Value {
	res := fn.Signature.Results()
	switch res.Len() {
	case 0:
		return nil
	case 1:
		return in.zero(res.At(0).Type())
	}
	tv := make(TupleV, res.Len())
	for i := range tv {
		tv[i] = in.zero(res.At(i).Type())
	}
	return tv
}

func (in *Interp) run(fr *frame) Value {
	return in.runFrom(fr, fr.fn.Blocks[0])
}

func (in *Interp) runFrom(fr *frame, b *ssa.BasicBlock) Value {
	for {
		var next *ssa.BasicBlock
		// phis first (parallel assignment)
		nphi := 0
		var phiVals []Value
		for _, ins := range b.Instrs {
			phi, ok := ins.(*ssa.Phi)
			if !ok {
				break
			}
			nphi++
			idx := -1
			for i, p := range b.Preds {
				if p == fr.prev {
					idx = i
					break
				}
			}
			if idx < 0 {
				in.unsupported("phi without matching predecessor")
			}
			phiVals = append(phiVals, in.get(fr, phi.Edges[idx]))
		}
		for i := 0; i < nphi; i++ {
			fr.setv(b.Instrs[i].(*ssa.Phi), phiVals[i])
		}
		for _, ins := range b.Instrs[nphi:] {
			in.steps++
			if in.steps > in.maxSteps {
				panic(engineErr{kind: "BOUND-EXCEEDED", msg: fmt.Sprintf("instruction budget %d exhausted in %s", in.maxSteps, fr.fn)})
			}
			switch x := ins.(type) {
			case *ssa.If:
				c := in.get(fr, x.Cond).(*Term)
				if in.branch(c) {
					next = b.Succs[0]
				} else {
					next = b.Succs[1]
				}
			case *ssa.Jump:
				next = b.Succs[0]
			case *ssa.Return:
				switch len(x.Results) {
				case 0:
					return nil
				case 1:
					return in.get(fr, x.Results[0])
				default:
					tv := make(TupleV, len(x.Results))
					for i, r := range x.Results {
						tv[i] = in.get(fr, r)
					}
					return tv
				}
			case *ssa.Panic:
				v := in.get(fr, x.X)
				msg := "panic"
				if iv, ok := v.(IfaceV); ok && iv.t != nil {
					if s, ok := iv.v.(StrV); ok {
						if cs, ok := concreteString(s); ok {
							msg = "panic: " + cs
						}
					} else {
						msg = "panic: value of type " + iv.t.String()
					}
				}
				panic(goPanic{msg: msg, fn: fr.fn.String(), pos: in.prog.Fset.Position(x.Pos()).String(), val: v})
			case *ssa.RunDefers:
				for i := len(fr.defers) - 1; i >= 0; i-- {
					fr.defers[i]()
				}
				fr.defers = nil
			default:
				in.exec(fr, ins)
			}
		}
		if next == nil {
			in.unsupported("block without terminator in " + fr.fn.String())
		}
		fr.prev = b
		b = next
	}
}

func (in *Interp) posOf(fr *frame, ins ssa.Instruction) string {
	p := ins.Pos()
	if p == token.NoPos {
		return fr.fn.String()
	}
	return in.prog.Fset.Position(p).String()
}

func (in *Interp) rtPanic(fr *frame, ins ssa.Instruction, msg string) {
	panic(goPanic{msg: "runtime error: " + msg, fn: fr.fn.String(), pos: in.posOf(fr, ins)})
}

// checkIndex makes idx concrete and checks 0 <= idx < n (n concrete), panicking on the infeasible side.
func (in *Interp) checkIndex(fr *frame, ins ssa.Instruction, idx *Term, n int, it types.Type) int {
	signed := true
	if bt, ok := it.Underlying().(*types.Basic); ok {
		_, signed, _ = basicSort(bt)
	}
	if idx.op == OpConst {
		v := signExt(idx.val, idx.sort)
		if !signed {
			v = int64(idx.val & mask(idx.sort))
		}
		if v < 0 || v >= int64(n) {
			in.rtPanic(fr, ins, fmt.Sprintf("index out of range [%d] with length %d", v, n))
		}
		return int(v)
	}
	i64 := in.tt.Resize(idx, 64, signed)
	inRange := in.tt.And(in.tt.Bin(OpSle, in.tt.Const(64, 0), i64), in.tt.Bin(OpSlt, i64, in.tt.Const(64, uint64(n))))
	if !in.branch(inRange) {
		in.rtPanic(fr, ins, fmt.Sprintf("index out of range [symbolic] with length %d", n))
	}
	return int(in.concretize(i64, "index"))
}

func (in *Interp) intOf(v Value, what string) int {
	t := v.(*Term)
	return int(in.concretize(in.tt.Resize(t, 64, true), what))
}

func (in *Interp) exec(fr *frame, ins ssa.Instruction) {
	switch x := ins.(type) {
	case *ssa.DebugRef:
	case *ssa.Alloc:
		et := x.Type().(*types.Pointer).Elem()
		o := in.newObj(et, in.zero(et), "alloc")
		fr.setv(x, PtrV{obj: o})
	case *ssa.Store:
		p := in.get(fr, x.Addr).(PtrV)
		if p.isNil() {
			in.rtPanic(fr, ins, "invalid memory address or nil pointer dereference")
		}
		if p.rep {
			in.unsupported("store through an element pointer obtained with a symbolic index into a large array")
		}
		in.logAccess("wr", p)
		p.store(in.get(fr, x.Val))
	case *ssa.UnOp:
		fr.setv(x, in.unop(fr, x))
	case *ssa.BinOp:
		fr.setv(x, in.binop(fr, x, x.Op, in.get(fr, x.X), in.get(fr, x.Y), x.X.Type()))
	case *ssa.Call:
		fr.setv(x, in.callCommon(fr, &x.Call, x))
	case *ssa.Defer:
		cc := x.Call
		// evaluate now
		thunk := in.prepareCall(fr, &cc, x)
		fr.defers = append(fr.defers, func() { thunk() })
	case *ssa.Go:
		in.unsupported("go statement")
	case *ssa.ChangeType:
		fr.setv(x, in.get(fr, x.X))
	case *ssa.ChangeInterface:
		fr.setv(x, in.get(fr, x.X))
	case *ssa.MakeInterface:
		fr.setv(x, IfaceV{t: x.X.Type(), v: in.get(fr, x.X)})
	case *ssa.MakeClosure:
		env := make([]Value, len(x.Bindings))
		for i, b := range x.Bindings {
			env[i] = in.get(fr, b)
		}
		fr.setv(x, FuncV{fn: x.Fn.(*ssa.Function), env: env})
	case *ssa.Convert:
		fr.setv(x, in.convert(fr, x, in.get(fr, x.X), x.X.Type(), x.Type()))
	case *ssa.Extract:
		fr.setv(x, in.get(fr, x.Tuple).(TupleV)[x.Index])
	case *ssa.Field:
		fr.setv(x, in.get(fr, x.X).(*StructV).f[x.Field])
	case *ssa.FieldAddr:
		p := in.get(fr, x.X).(PtrV)
		if p.isNil() {
			in.rtPanic(fr, ins, "invalid memory address or nil pointer dereference")
		}
		fr.setv(x, p.sub(x.Field))
	case *ssa.Index:
		xv := in.get(fr, x.X)
		idx := in.get(fr, x.Index).(*Term)
		switch c := xv.(type) {
		case StrV:
			i := in.checkIndex(fr, ins, idx, len(c.b), x.Index.Type())
			fr.setv(x, c.b[i])
		case *ArrayV:
			i := in.checkIndex(fr, ins, idx, len(c.e), x.Index.Type())
			fr.setv(x, c.e[i])
		default:
			in.unsupported(fmt.Sprintf("Index on %T", xv))
		}
	case *ssa.IndexAddr:
		xv := in.get(fr, x.X)
		idx := in.get(fr, x.Index).(*Term)
		switch c := xv.(type) {
		case SliceV:
			if idx.op != OpConst && c.len > 16 {
				if i, ok := in.symbolicElem(fr, ins, idx, in.sliceElems(c), x.Index.Type()); ok {
					fr.setv(x, PtrV{obj: c.arr, path: []int{c.off + i}, rep: true})
					break
				}
			}
			i := in.checkIndex(fr, ins, idx, c.len, x.Index.Type())
			fr.setv(x, PtrV{obj: c.arr, path: []int{c.off + i}})
		case PtrV: // *array
			if c.isNil() {
				in.rtPanic(fr, ins, "invalid memory address or nil pointer dereference")
			}
			n := len(c.load().(*ArrayV).e)
			if idx.op != OpConst && n > 16 {
				if i, ok := in.symbolicElem(fr, ins, idx, c.load().(*ArrayV).e, x.Index.Type()); ok {
					np := c.sub(i)
					np.rep = true
					fr.setv(x, np)
					break
				}
			}
			i := in.checkIndex(fr, ins, idx, n, x.Index.Type())
			fr.setv(x, c.sub(i))
		default:
			in.unsupported(fmt.Sprintf("IndexAddr on %T", xv))
		}
	case *ssa.Lookup:
		xv := in.get(fr, x.X)
		switch c := xv.(type) {
		case StrV:
			i := in.checkIndex(fr, ins, in.get(fr, x.Index).(*Term), len(c.b), x.Index.Type())
			fr.setv(x, c.b[i])
		case *MapV:
			k := in.get(fr, x.Index)
			vt := x.X.Type().Underlying().(*types.Map).Elem()
			v, ok := in.mapLookup(c, k)
			if !ok {
				v = in.zero(vt)
			}
			if x.CommaOk {
				fr.setv(x, TupleV{v, in.tt.Bool(ok)})
			} else {
				fr.setv(x, v)
			}
		default:
			in.unsupported(fmt.Sprintf("Lookup on %T", xv))
		}
	case *ssa.Slice:
		fr.setv(x, in.slice(fr, x))
	case *ssa.MakeSlice:
		n := in.intOf(in.get(fr, x.Len), "make len")
		c := in.intOf(in.get(fr, x.Cap), "make cap")
		if n < 0 {
			in.rtPanic(fr, ins, "makeslice: len out of range")
		}
		if c < n {
			in.rtPanic(fr, ins, "makeslice: cap out of range")
		}
		if c > 1<<20 {
			in.rtPanic(fr, ins, "makeslice: len out of range (huge)")
		}
		et := x.Type().Underlying().(*types.Slice).Elem()
		fr.setv(x, in.makeSlice(et, n, c))
	case *ssa.MakeMap:
		mt := x.Type().Underlying().(*types.Map)
		in.nextMap++
		fr.setv(x, &MapV{id: in.nextMap, kt: mt.Key(), vt: mt.Elem()})
	case *ssa.MapUpdate:
		m := in.get(fr, x.Map).(*MapV)
		if m == nil {
			in.rtPanic(fr, ins, "assignment to entry in nil map")
		}
		in.mapUpdate(m, in.get(fr, x.Key), in.get(fr, x.Value))
	case *ssa.Range:
		xv := in.get(fr, x.X)
		switch c := xv.(type) {
		case *MapV:
			it := &iterV{}
			if c != nil {
				in.logMap("rd", c)
				it.keys = append(it.keys, c.keys...)
				it.vals = append(it.vals, c.vals...)
			}
			fr.setv(x, it)
		case StrV:
			fr.setv(x, &iterV{str: &c})
		default:
			in.unsupported(fmt.Sprintf("Range on %T", xv))
		}
	case *ssa.Next:
		it := in.get(fr, x.Iter).(*iterV)
		fr.setv(x, in.iterNext(it, x))
	case *ssa.TypeAssert:
		fr.setv(x, in.typeAssert(fr, x))
	case *ssa.Phi:
		in.unsupported("phi in the middle of a block")
	case *ssa.SliceToArrayPointer, *ssa.MakeChan, *ssa.Send, *ssa.Select:
		in.unsupported(fmt.Sprintf("instruction %T", ins))
	default:
		in.unsupported(fmt.Sprintf("instruction %T", ins))
	}
}

type iterV struct {
	keys []Value
	vals []Value
	i    int
	str  *StrV
}

func (in *Interp) iterNext(it *iterV, x *ssa.Next) Value {
	if x.IsString {
		s := it.str
		if it.i >= len(s.b) {
			return TupleV{in.tt.tF, in.tt.Const(64, 0), in.tt.Const(32, 0)}
		}
		// decode one rune; requires the lead byte class to be decided
		b0 := s.b[it.i]
		start := it.i
		if in.branch(in.tt.Bin(OpUlt, b0, in.tt.b8[0x80])) {
			it.i++
			return TupleV{in.tt.tT, in.tt.Const(64, uint64(start)), in.tt.Resize(b0, 32, false)}
		}
		// multi-byte: decode symbolically, forking on the byte classes of the UTF-8 grammar
		r, size := in.decodeRuneSym(s.b[it.i:])
		it.i += size
		return TupleV{in.tt.tT, in.tt.Const(64, uint64(start)), r}
	}
	if it.i >= len(it.keys) {
		return TupleV{in.tt.tF, nil, nil}
	}
	k, v := it.keys[it.i], it.vals[it.i]
	it.i++
	return TupleV{in.tt.tT, k, v}
}

func (in *Interp) makeSlice(et types.Type, n, c int) SliceV {
	e := make([]Value, c)
	if c > 0 {
		z := in.zero(et)
		for i := range e {
			e[i] = z
		}
	}
	arr := in.newObj(types.NewArray(et, int64(c)), &ArrayV{e: e}, "makeslice")
	return SliceV{arr: arr, off: 0, len: n, cap: c}
}

func (in *Interp) sliceElems(s SliceV) []Value {
	if s.arr == nil || s.len == 0 {
		return nil
	}
	in.logObjRange("rd", s.arr, s.off, s.off+s.len)
	return s.arr.v.(*ArrayV).e[s.off : s.off+s.len]
}

func (in *Interp) slice(fr *frame, x *ssa.Slice) Value {
	xv := in.get(fr, x.X)
	lo, hi, mx := 0, -1, -1
	if x.Low != nil {
		lo = in.intOf(in.get(fr, x.Low), "slice low")
	}
	if x.High != nil {
		hi = in.intOf(in.get(fr, x.High), "slice high")
	}
	if x.Max != nil {
		mx = in.intOf(in.get(fr, x.Max), "slice max")
	}
	switch c := xv.(type) {
	case StrV:
		if hi < 0 && x.High == nil {
			hi = len(c.b)
		}
		if lo < 0 || hi < lo || hi > len(c.b) {
			in.rtPanic(fr, x, fmt.Sprintf("slice bounds out of range [%d:%d] with length %d", lo, hi, len(c.b)))
		}
		return StrV{b: c.b[lo:hi]}
	case SliceV:
		if x.High == nil {
			hi = c.len
		}
		if x.Max == nil {
			mx = c.cap
		}
		if lo < 0 || hi < lo || mx < hi || mx > c.cap {
			in.rtPanic(fr, x, fmt.Sprintf("slice bounds out of range [%d:%d:%d] with capacity %d", lo, hi, mx, c.cap))
		}
		if c.arr == nil {
			return SliceV{}
		}
		return SliceV{arr: c.arr, off: c.off + lo, len: hi - lo, cap: mx - lo}
	case PtrV: // *array
		if c.isNil() {
			in.rtPanic(fr, x, "invalid memory address or nil pointer dereference")
		}
		if len(c.path) != 0 {
			in.unsupported("slicing an array that is not a root object")
		}
		n := len(c.load().(*ArrayV).e)
		if x.High == nil {
			hi = n
		}
		if x.Max == nil {
			mx = n
		}
		if lo < 0 || hi < lo || mx < hi || mx > n {
			in.rtPanic(fr, x, "slice bounds out of range")
		}
		return SliceV{arr: c.obj, off: lo, len: hi - lo, cap: mx - lo}
	}
	in.unsupported(fmt.Sprintf("Slice on %T", xv))
	return nil
}

func (in *Interp) unop(fr *frame, x *ssa.UnOp) Value {
	v := in.get(fr, x.X)
	switch x.Op {
	case token.MUL:
		p := v.(PtrV)
		if p.isNil() {
			in.rtPanic(fr, x, "invalid memory address or nil pointer dereference")
		}
		in.logAccess("rd", p)
		return p.load()
	case token.NOT:
		return in.tt.Not(v.(*Term))
	case token.SUB:
		if f, ok := v.(*OpaqueV); ok && f.kind == "float" && f.data != nil {
			nf := -f.data.(float64)
			return &OpaqueV{kind: "float", data: nf}
		}
		return in.tt.Un(OpNeg, v.(*Term))
	case token.XOR:
		return in.tt.Un(OpNot, v.(*Term))
	}
	in.unsupported("unop " + x.Op.String())
	return nil
}

func (in *Interp) binop(fr *frame, ins ssa.Instruction, op token.Token, a, b Value, xt types.Type) Value {
	switch x := a.(type) {
	case *Term:
		y, ok := b.(*Term)
		if !ok {
			in.unsupported("binop operand mismatch")
		}
		if x.sort == 0 {
			switch op {
			case token.EQL:
				return in.tt.Bin(OpEq, x, y)
			case token.NEQ:
				return in.tt.Not(in.tt.Bin(OpEq, x, y))
			case token.AND, token.LAND:
				return in.tt.And(x, y)
			case token.OR, token.LOR:
				return in.tt.Or(x, y)
			}
			in.unsupported("bool binop " + op.String())
		}
		signed := true
		if bt, ok := xt.Underlying().(*types.Basic); ok {
			_, signed, _ = basicSort(bt)
		}
		switch op {
		case token.ADD:
			return in.tt.Bin(OpAdd, x, y)
		case token.SUB:
			return in.tt.Bin(OpSub, x, y)
		case token.MUL:
			return in.tt.Bin(OpMul, x, y)
		case token.QUO, token.REM:
			if in.branch(in.tt.Bin(OpEq, y, in.tt.Const(y.sort, 0))) {
				in.rtPanic(fr, ins, "integer divide by zero")
			}
			if op == token.QUO {
				if signed {
					return in.tt.Bin(OpSDiv, x, y)
				}
				return in.tt.Bin(OpUDiv, x, y)
			}
			if signed {
				return in.tt.Bin(OpSRem, x, y)
			}
			return in.tt.Bin(OpURem, x, y)
		case token.AND:
			return in.tt.Bin(OpAnd, x, y)
		case token.OR:
			return in.tt.Bin(OpOr, x, y)
		case token.XOR:
			return in.tt.Bin(OpXor, x, y)
		case token.AND_NOT:
			return in.tt.Bin(OpAnd, x, in.tt.Un(OpNot, y))
		case token.SHL, token.SHR:
			cnt := y
			if cnt.sort != x.sort {
				if cnt.sort > x.sort && cnt.op != OpConst {
					in.unsupported("shift count wider than operand")
				}
				cnt = in.tt.Resize(cnt, x.sort, false)
			}
			if op == token.SHL {
				return in.tt.Bin(OpShl, x, cnt)
			}
			if signed {
				return in.tt.Bin(OpAShr, x, cnt)
			}
			return in.tt.Bin(OpLShr, x, cnt)
		case token.EQL:
			return in.tt.Bin(OpEq, x, y)
		case token.NEQ:
			return in.tt.Not(in.tt.Bin(OpEq, x, y))
		case token.LSS:
			if signed {
				return in.tt.Bin(OpSlt, x, y)
			}
			return in.tt.Bin(OpUlt, x, y)
		case token.LEQ:
			if signed {
				return in.tt.Bin(OpSle, x, y)
			}
			return in.tt.Bin(OpUle, x, y)
		case token.GTR:
			if signed {
				return in.tt.Bin(OpSlt, y, x)
			}
			return in.tt.Bin(OpUlt, y, x)
		case token.GEQ:
			if signed {
				return in.tt.Bin(OpSle, y, x)
			}
			return in.tt.Bin(OpUle, y, x)
		}
	case StrV:
		y := b.(StrV)
		switch op {
		case token.ADD:
			nb := make([]*Term, 0, len(x.b)+len(y.b))
			nb = append(nb, x.b...)
			nb = append(nb, y.b...)
			return StrV{b: nb}
		case token.EQL:
			return in.valueEq(x, y)
		case token.NEQ:
			return in.tt.Not(in.valueEq(x, y))
		case token.LSS:
			return in.strLess(x, y)
		case token.GTR:
			return in.strLess(y, x)
		case token.LEQ:
			return in.tt.Not(in.strLess(y, x))
		case token.GEQ:
			return in.tt.Not(in.strLess(x, y))
		}
	case *OpaqueV:
		if r, ok := in.floatBinop(op, x, b, xt); ok {
			return r
		}
		switch op {
		case token.EQL:
			return in.valueEq(a, b)
		case token.NEQ:
			return in.tt.Not(in.valueEq(a, b))
		}
	default:
		switch op {
		case token.EQL:
			return in.valueEq(a, b)
		case token.NEQ:
			return in.tt.Not(in.valueEq(a, b))
		}
	}
	in.unsupported(fmt.Sprintf("binop %s on %T", op, a))
	return nil
}

func (in *Interp) convert(fr *frame, ins ssa.Instruction, v Value, from, to types.Type) Value {
	fu, tu := from.Underlying(), to.Underlying()
	switch tb := tu.(type) {
	case *types.Basic:
		if tb.Info()&types.IsString != 0 {
			switch f := fu.(type) {
			case *types.Basic:
				if f.Info()&types.IsString != 0 {
					return v
				}
				if f.Info()&types.IsInteger != 0 {
					return in.runeToString(v.(*Term), f)
				}
			case *types.Slice:
				sv := v.(SliceV)
				eb, ok := f.Elem().Underlying().(*types.Basic)
				if ok && eb.Kind() == types.Uint8 {
					es := in.sliceElems(sv)
					b := make([]*Term, len(es))
					for i, e := range es {
						b[i] = e.(*Term)
					}
					return StrV{b: b}
				}
				if ok && eb.Kind() == types.Int32 {
					var b []*Term
					for _, e := range in.sliceElems(sv) {
						b = append(b, in.runeToString(e.(*Term), eb).(StrV).b...)
					}
					return StrV{b: b}
				}
			}
			in.unsupported("conversion to string from " + from.String())
		}
		if tb.Kind() == types.UnsafePointer {
			in.unsupported("unsafe.Pointer conversion")
		}
		if tb.Info()&types.IsInteger != 0 {
			fb, ok := fu.(*types.Basic)
			if ok && fb.Info()&types.IsInteger != 0 {
				ts, _, _ := basicSort(tb)
				_, fsigned, _ := basicSort(fb)
				return in.tt.Resize(v.(*Term), ts, fsigned)
			}
		}
		if tb.Info()&types.IsFloat != 0 {
			return in.toFloat(v, fu, tb)
		}
	case *types.Slice:
		fb, ok := fu.(*types.Basic)
		if ok && fb.Info()&types.IsString != 0 {
			eb, ok := tb.Elem().Underlying().(*types.Basic)
			if ok && eb.Kind() == types.Uint8 {
				s := v.(StrV)
				e := make([]Value, len(s.b))
				for i, t := range s.b {
					e[i] = t
				}
				arr := in.newObj(types.NewArray(tb.Elem(), int64(len(e))), &ArrayV{e: e}, "[]byte(string)")
				return SliceV{arr: arr, len: len(e), cap: len(e)}
			}
			if ok && eb.Kind() == types.Int32 {
				// []rune(s): decode rune by rune (forks on the UTF-8 byte classes of symbolic bytes)
				s := v.(StrV)
				var e []Value
				for i := 0; i < len(s.b); {
					b0 := s.b[i]
					if in.branch(in.tt.Bin(OpUlt, b0, in.tt.b8[0x80])) {
						e = append(e, in.tt.Resize(b0, 32, false))
						i++
						continue
					}
					r, size := in.decodeRuneSym(s.b[i:])
					e = append(e, r)
					i += size
				}
				arr := in.newObj(types.NewArray(tb.Elem(), int64(len(e))), &ArrayV{e: e}, "[]rune(string)")
				return SliceV{arr: arr, len: len(e), cap: len(e)}
			}
		}
	}
	in.unsupported("conversion " + from.String() + " -> " + to.String())
	return nil
}

// runeToString encodes a (possibly symbolic) integer as UTF-8, forking on the length class.
func (in *Interp) runeToString(r *Term, fb *types.Basic) Value {
	_, signed, _ := basicSort(fb)
	r64 := in.tt.Resize(r, 64, signed)
	c := func(v uint64) *Term { return in.tt.Const(64, v) }
	bad := in.tt.Or(in.tt.Bin(OpSlt, r64, c(0)), in.tt.Bin(OpSlt, c(0x10FFFF), r64),
		in.tt.And(in.tt.Bin(OpSle, c(0xD800), r64), in.tt.Bin(OpSle, r64, c(0xDFFF))))
	if in.branch(bad) {
		return in.mkStr("\uFFFD")
	}
	b8 := func(t *Term) *Term { return in.tt.Resize(t, 8, false) }
	shr := func(t *Term, n uint64) *Term { return in.tt.Bin(OpLShr, t, c(n)) }
	and := func(t *Term, m uint64) *Term { return in.tt.Bin(OpAnd, t, c(m)) }
	or := func(t *Term, m uint64) *Term { return in.tt.Bin(OpOr, t, c(m)) }
	if in.branch(in.tt.Bin(OpSlt, r64, c(0x80))) {
		return StrV{b: []*Term{b8(r64)}}
	}
	if in.branch(in.tt.Bin(OpSlt, r64, c(0x800))) {
		return StrV{b: []*Term{b8(or(shr(r64, 6), 0xC0)), b8(or(and(r64, 0x3F), 0x80))}}
	}
	if in.branch(in.tt.Bin(OpSlt, r64, c(0x10000))) {
		return StrV{b: []*Term{b8(or(shr(r64, 12), 0xE0)), b8(or(and(shr(r64, 6), 0x3F), 0x80)), b8(or(and(r64, 0x3F), 0x80))}}
	}
	return StrV{b: []*Term{b8(or(shr(r64, 18), 0xF0)), b8(or(and(shr(r64, 12), 0x3F), 0x80)), b8(or(and(shr(r64, 6), 0x3F), 0x80)), b8(or(and(r64, 0x3F), 0x80))}}
}

func decodeRune(b []byte) (rune, int) {
	s := string(b)
	for _, r := range s {
		n := len(string(r))
		if r == 0xFFFD {
			// could be an invalid byte: size 1
			if len(b) < 3 || !(b[0] == 0xEF && b[1] == 0xBF && b[2] == 0xBD) {
				return r, 1
			}
		}
		return r, n
	}
	return 0xFFFD, 1
}

func (in *Interp) typeAssert(fr *frame, x *ssa.TypeAssert) Value {
	v := in.get(fr, x.X).(IfaceV)
	ok := false
	var res Value
	if isInterface(x.AssertedType) {
		if v.t != nil {
			it := x.AssertedType.Underlying().(*types.Interface)
			ok = types.Implements(v.t, it)
		}
		if ok {
			res = v
		} else {
			res = IfaceV{}
		}
	} else {
		if v.t != nil && types.Identical(v.t, x.AssertedType) {
			ok = true
			res = v.v
		} else {
			res = in.zero(x.AssertedType)
		}
	}
	if x.CommaOk {
		return TupleV{res, in.tt.Bool(ok)}
	}
	if !ok {
		dyn := "nil"
		if v.t != nil {
			dyn = v.t.String()
		}
		in.rtPanic(fr, x, fmt.Sprintf("interface conversion: interface is %s, not %s", dyn, x.AssertedType))
	}
	return res
}

// ---------- maps

func (in *Interp) mapFind(m *MapV, k Value) int {
	if m == nil {
		return -1
	}
	if iv, ok := k.(IfaceV); ok && iv.t != nil && !types.Comparable(iv.t) {
		in.goPanicf("runtime error: hash of unhashable type %s", iv.t)
	}
	for i, ek := range m.keys {
		if in.branch(in.valueEq(ek, k)) {
			return i
		}
	}
	return -1
}

func (in *Interp) mapLookup(m *MapV, k Value) (Value, bool) {
	if m != nil {
		in.logMap("rd", m)
	}
	i := in.mapFind(m, k)
	if i < 0 {
		return nil, false
	}
	return m.vals[i], true
}

func (in *Interp) mapUpdate(m *MapV, k, v Value) {
	in.logMap("wr", m)
	i := in.mapFind(m, k)
	if i >= 0 {
		m.vals[i] = v
		return
	}
	m.keys = append(m.keys, k)
	m.vals = append(m.vals, v)
}

func (in *Interp) mapDelete(m *MapV, k Value) {
	if m == nil {
		return
	}
	in.logMap("wr", m)
	i := in.mapFind(m, k)
	if i >= 0 {
		m.keys = append(m.keys[:i:i], m.keys[i+1:]...)
		m.vals = append(m.vals[:i:i], m.vals[i+1:]...)
	}
}

// ---------- calls

func (in *Interp) prepareCall(fr *frame, c *ssa.CallCommon, site ssa.Instruction) func() Value {
	args := make([]Value, 0, len(c.Args)+1)
	if c.IsInvoke() {
		recv := in.get(fr, c.Value).(IfaceV)
		for _, a := range c.Args {
			args = append(args, in.get(fr, a))
		}
		return func() Value {
			if recv.t == nil {
				in.rtPanic(fr, site, "invalid memory address or nil pointer dereference (method call on nil interface)")
			}
			fn := in.lookupMethod(recv.t, c.Method.Pkg(), c.Method.Name())
			if fn == nil {
				in.unsupported("no method " + c.Method.Name() + " on " + recv.t.String())
			}
			return in.callFn(fn, append([]Value{recv.v}, args...), nil)
		}
	}
	for _, a := range c.Args {
		args = append(args, in.get(fr, a))
	}
	switch f := c.Value.(type) {
	case *ssa.Builtin:
		return func() Value { return in.builtin(fr, site, f, args, c) }
	case *ssa.Function:
		return func() Value { return in.callFn(f, args, nil) }
	}
	fv, ok := in.get(fr, c.Value).(FuncV)
	if !ok {
		in.unsupported("call of non-function value")
	}
	return func() Value {
		if fv.fn == nil {
			in.rtPanic(fr, site, "invalid memory address or nil pointer dereference (nil func call)")
		}
		return in.callFn(fv.fn, args, fv.env)
	}
}

func (in *Interp) callCommon(fr *frame, c *ssa.CallCommon, site ssa.Instruction) Value {
	if c.IsInvoke() {
		recv := in.get(fr, c.Value).(IfaceV)
		if recv.t == nil {
			in.rtPanic(fr, site, "invalid memory address or nil pointer dereference (method call on nil interface)")
		}
		fn := in.lookupMethod(recv.t, c.Method.Pkg(), c.Method.Name())
		if fn == nil {
			in.unsupported("no method " + c.Method.Name() + " on " + recv.t.String())
		}
		args := make([]Value, 0, len(c.Args)+1)
		args = append(args, recv.v)
		for _, a := range c.Args {
			args = append(args, in.get(fr, a))
		}
		return in.callFn(fn, args, nil)
	}
	args := make([]Value, len(c.Args))
	for i, a := range c.Args {
		args[i] = in.get(fr, a)
	}
	switch f := c.Value.(type) {
	case *ssa.Builtin:
		return in.builtin(fr, site, f, args, c)
	case *ssa.Function:
		return in.callFn(f, args, nil)
	}
	fv, ok := in.get(fr, c.Value).(FuncV)
	if !ok {
		in.unsupported("call of non-function value")
	}
	if fv.fn == nil {
		in.rtPanic(fr, site, "invalid memory address or nil pointer dereference (nil func call)")
	}
	return in.callFn(fv.fn, args, fv.env)
}

func (in *Interp) builtin(fr *frame, site ssa.Instruction, b *ssa.Builtin, args []Value, c *ssa.CallCommon) Value {
	switch b.Name() {
	case "len":
		switch x := args[0].(type) {
		case StrV:
			return in.tt.Const(64, uint64(len(x.b)))
		case SliceV:
			return in.tt.Const(64, uint64(x.len))
		case *MapV:
			if x == nil {
				return in.tt.Const(64, 0)
			}
			in.logMap("rd", x)
			return in.tt.Const(64, uint64(len(x.keys)))
		case *ArrayV:
			return in.tt.Const(64, uint64(len(x.e)))
		case PtrV:
			return in.tt.Const(64, uint64(len(x.load().(*ArrayV).e)))
		}
	case "cap":
		switch x := args[0].(type) {
		case SliceV:
			return in.tt.Const(64, uint64(x.cap))
		case *ArrayV:
			return in.tt.Const(64, uint64(len(x.e)))
		}
	case "append":
		s := args[0].(SliceV)
		var add []Value
		switch y := args[1].(type) {
		case SliceV:
			add = in.sliceElems(y)
		case StrV:
			for _, t := range y.b {
				add = append(add, t)
			}
		}
		et := c.Args[0].Type().Underlying().(*types.Slice).Elem()
		return in.appendSlice(s, add, et)
	case "copy":
		dst := args[0].(SliceV)
		var src []Value
		switch y := args[1].(type) {
		case SliceV:
			src = append(src, in.sliceElems(y)...)
		case StrV:
			for _, t := range y.b {
				src = append(src, t)
			}
		}
		n := len(src)
		if dst.len < n {
			n = dst.len
		}
		if n > 0 {
			old := dst.arr.v.(*ArrayV)
			ne := make([]Value, len(old.e))
			copy(ne, old.e)
			copy(ne[dst.off:dst.off+n], src[:n])
			dst.arr.v = &ArrayV{e: ne}
			in.logObjRange("wr", dst.arr, dst.off, dst.off+n)
		}
		return in.tt.Const(64, uint64(n))
	case "delete":
		in.mapDelete(args[0].(*MapV), args[1])
		return nil
	case "print", "println":
		return nil
	case "recover":
		// (approximation: any recover() reached while deferred calls run because of a panic stops it,
		// not only one called directly by the deferred function)
		if in.panicking == nil {
			return IfaceV{}
		}
		gp := in.panicking
		in.panicking = nil
		if iv, ok := gp.val.(IfaceV); ok {
			return iv
		}
		return in.newError(in.mkStr(gp.msg)) // run-time panics: an error value carrying the message
	case "min", "max":
		r := args[0].(*Term)
		signed := true
		if bt, ok := c.Args[0].Type().Underlying().(*types.Basic); ok {
			_, signed, _ = basicSort(bt)
		}
		for _, x := range args[1:] {
			y := x.(*Term)
			op := OpSlt
			if !signed {
				op = OpUlt
			}
			lt := in.tt.Bin(op, y, r)
			if b.Name() == "max" {
				lt = in.tt.Bin(op, r, y)
			}
			r = in.tt.Ite(lt, y, r)
		}
		return r
	case "clear":
		if m, ok := args[0].(*MapV); ok && m != nil {
			in.logMap("wr", m)
			m.keys, m.vals = nil, nil
		}
		return nil
	}
	in.unsupported("builtin " + b.Name())
	return nil
}

// appendSlice follows the Go 1.23 runtime growth policy so that re-allocation points coincide
// with the real build.
func (in *Interp) appendSlice(s SliceV, add []Value, et types.Type) SliceV {
	if len(add) == 0 {
		return s
	}
	newLen := s.len + len(add)
	if s.arr != nil && newLen <= s.cap {
		old := s.arr.v.(*ArrayV)
		ne := make([]Value, len(old.e))
		copy(ne, old.e)
		copy(ne[s.off+s.len:], add)
		s.arr.v = &ArrayV{e: ne}
		in.logObjRange("wr", s.arr, s.off+s.len, s.off+newLen)
		return SliceV{arr: s.arr, off: s.off, len: newLen, cap: s.cap}
	}
	esz := in.ld.sizes.Sizeof(et)
	newCap := growCapNS(s.cap, newLen, esz, !hasPointers(et))
	e := make([]Value, newCap)
	copy(e, in.sliceElems(s))
	copy(e[s.len:], add)
	if newCap > newLen {
		z := in.zero(et)
		for i := newLen; i < newCap; i++ {
			e[i] = z
		}
	}
	arr := in.newObj(types.NewArray(et, int64(newCap)), &ArrayV{e: e}, "append")
	return SliceV{arr: arr, off: 0, len: newLen, cap: newCap}
}

func (fr *frame) setv(v ssa.Value, val Value) {
	i := fr.fi.idx[v]
	fr.locals[i] = val
	fr.set[i] = true
}

var qstat map[string]int
var qstatMu sync.Mutex

func (in *Interp) byteIn(b *Term, lo, hi byte) bool {
	return in.branch(in.tt.And(in.tt.Bin(OpUle, in.tt.b8[lo], b), in.tt.Bin(OpUle, b, in.tt.b8[hi])))
}

// decodeRuneSym decodes the first UTF-8 sequence of bs (bs[0] is known to be >= 0x80) following
// unicode/utf8.DecodeRuneInString exactly; invalid sequences give (U+FFFD, 1).
func (in *Interp) decodeRuneSym(bs []*Term) (*Term, int) {
	bad := in.tt.Const(32, 0xFFFD)
	b0 := bs[0]
	var sz int
	var lo1, hi1 byte = 0x80, 0xBF
	switch {
	case in.byteIn(b0, 0xC2, 0xDF):
		sz = 2
	case in.byteIn(b0, 0xE0, 0xE0):
		sz, lo1 = 3, 0xA0
	case in.byteIn(b0, 0xED, 0xED):
		sz, hi1 = 3, 0x9F
	case in.byteIn(b0, 0xE1, 0xEF):
		sz = 3
	case in.byteIn(b0, 0xF0, 0xF0):
		sz, lo1 = 4, 0x90
	case in.byteIn(b0, 0xF4, 0xF4):
		sz, hi1 = 4, 0x8F
	case in.byteIn(b0, 0xF1, 0xF3):
		sz = 4
	default:
		return bad, 1
	}
	if len(bs) < sz {
		return bad, 1
	}
	if !in.byteIn(bs[1], lo1, hi1) {
		return bad, 1
	}
	w := func(b *Term) *Term { return in.tt.Resize(b, 32, false) }
	and := func(t *Term, m uint64) *Term { return in.tt.Bin(OpAnd, t, in.tt.Const(32, m)) }
	shl := func(t *Term, n uint64) *Term { return in.tt.Bin(OpShl, t, in.tt.Const(32, n)) }
	or := func(a, b *Term) *Term { return in.tt.Bin(OpOr, a, b) }
	if sz == 2 {
		return or(shl(and(w(b0), 0x1F), 6), and(w(bs[1]), 0x3F)), 2
	}
	if !in.byteIn(bs[2], 0x80, 0xBF) {
		return bad, 1
	}
	if sz == 3 {
		return or(or(shl(and(w(b0), 0x0F), 12), shl(and(w(bs[1]), 0x3F), 6)), and(w(bs[2]), 0x3F)), 3
	}
	if !in.byteIn(bs[3], 0x80, 0xBF) {
		return bad, 1
	}
	return or(or(or(shl(and(w(b0), 0x07), 18), shl(and(w(bs[1]), 0x3F), 12)), shl(and(w(bs[2]), 0x3F), 6)), and(w(bs[3]), 0x3F)), 4
}

// symbolicElem handles a symbolic index into a large table of concrete elements: the indices are
// partitioned into classes of equal elements, the path forks per feasible class (not per index) and a
// representative index of the chosen class is returned. ok=false if the elements are not concrete.
func (in *Interp) symbolicElem(fr *frame, ins ssa.Instruction, idx *Term, elems []Value, it types.Type) (int, bool) {
	signed := true
	if bt, ok := it.Underlying().(*types.Basic); ok {
		_, signed, _ = basicSort(bt)
	}
	i64 := in.tt.Resize(idx, 64, signed)
	n := len(elems)
	inRange := in.tt.And(in.tt.Bin(OpSle, in.tt.Const(64, 0), i64), in.tt.Bin(OpSlt, i64, in.tt.Const(64, uint64(n))))
	if !in.branch(inRange) {
		in.rtPanic(fr, ins, fmt.Sprintf("index out of range [symbolic] with length %d", n))
	}
	// classes of equal (concrete) elements
	var reps []int
	classOf := make([]int, n)
	for i := 0; i < n; i++ {
		found := -1
		for ci, r := range reps {
			eq := in.valueEqSafe(elems[r], elems[i])
			if eq == nil {
				return 0, false
			}
			if eq.IsTrue() {
				found = ci
				break
			}
			if !eq.IsFalse() {
				return 0, false
			}
		}
		if found < 0 {
			reps = append(reps, i)
			found = len(reps) - 1
		}
		classOf[i] = found
	}
	if len(reps) > in.cfg.EnumCap {
		return 0, false
	}
	for ci, r := range reps {
		if ci == len(reps)-1 {
			return r, true
		}
		// condition: idx is a member of class ci (contiguous runs as ranges)
		var ors []*Term
		for lo := 0; lo < n; {
			if classOf[lo] != ci {
				lo++
				continue
			}
			hi := lo
			for hi+1 < n && classOf[hi+1] == ci {
				hi++
			}
			if lo == hi {
				ors = append(ors, in.tt.Bin(OpEq, i64, in.tt.Const(64, uint64(lo))))
			} else {
				ors = append(ors, in.tt.And(in.tt.Bin(OpSle, in.tt.Const(64, uint64(lo)), i64), in.tt.Bin(OpSle, i64, in.tt.Const(64, uint64(hi)))))
			}
			lo = hi + 1
		}
		if in.branch(in.tt.Or(ors...)) {
			return r, true
		}
	}
	return reps[len(reps)-1], true
}

// valueEqSafe is valueEq for values that may be incomparable in Go (slices, maps): identity of the
// backing store is used for those; nil when no verdict is possible.
func (in *Interp) valueEqSafe(a, b Value) *Term {
	switch x := a.(type) {
	case SliceV:
		y, ok := b.(SliceV)
		if !ok {
			return in.tt.tF
		}
		return in.tt.Bool(x.arr == y.arr && x.off == y.off && x.len == y.len)
	case *MapV:
		y, ok := b.(*MapV)
		return in.tt.Bool(ok && x == y)
	case FuncV:
		y, ok := b.(FuncV)
		return in.tt.Bool(ok && x.fn == y.fn && len(x.env) == 0 && len(y.env) == 0)
	case *StructV:
		y, ok := b.(*StructV)
		if !ok || len(x.f) != len(y.f) {
			return in.tt.tF
		}
		cs := []*Term{}
		for i := range x.f {
			c := in.valueEqSafe(x.f[i], y.f[i])
			if c == nil {
				return nil
			}
			if c.IsFalse() {
				return c
			}
			cs = append(cs, c)
		}
		return in.tt.And(cs...)
	case IfaceV:
		y, ok := b.(IfaceV)
		if !ok {
			return nil
		}
		if x.t == nil || y.t == nil {
			return in.tt.Bool(x.t == nil && y.t == nil)
		}
		if !types.Identical(x.t, y.t) {
			return in.tt.tF
		}
		return in.valueEqSafe(x.v, y.v)
	}
	return in.valueEq(a, b)
}
