package main

// Schedule encoding (DESIGN §4): the threads of a vfPar region are run one after another; the logged
// per-thread event traces (acq/rel of mutexes, rd/wr of locations) are then examined pair-wise: for two
// conflicting accesses of different threads an SMT problem over integer event clocks (program order,
// mutual exclusion of critical sections on the same mutex, adjacency of the two accesses) is discharged;
// sat = a schedule exists in which the accesses are adjacent and unordered: a data race.

import (
	"fmt"
	"sort"
	"strings"
)

type raceFinding struct {
	Loc  string
	Desc string
}

type csec struct {
	mutex    string
	acq, rel int // event indexes within the thread's trimmed list
	read     bool
}

func overlaps(a, b string) bool {
	// slice-level accesses carry the element range they touch: "*lo:hi" ("*" alone = the whole object)
	if strings.HasPrefix(a, "*") && strings.HasPrefix(b, "*") {
		if a == "*" || b == "*" {
			return true
		}
		var alo, ahi, blo, bhi int
		if n, _ := fmt.Sscanf(a, "*%d:%d", &alo, &ahi); n != 2 {
			return true
		}
		if n, _ := fmt.Sscanf(b, "*%d:%d", &blo, &bhi); n != 2 {
			return true
		}
		return alo < bhi && blo < ahi
	}
	return strings.HasPrefix(a, b) || strings.HasPrefix(b, a)
}

func (in *Interp) raceCheck(events []Event) []raceFinding {
	// split by thread (thread 0 = outside the parallel region)
	byT := map[int][]Event{}
	var tids []int
	for _, e := range events {
		if e.Thread == 0 {
			continue
		}
		if _, ok := byT[e.Thread]; !ok {
			tids = append(tids, e.Thread)
		}
		byT[e.Thread] = append(byT[e.Thread], e)
	}
	sort.Ints(tids)
	if len(tids) < 2 {
		return nil
	}
	// objects touched by at least two threads with at least one write
	type key struct {
		obj int
	}
	touched := map[int]map[int]bool{}
	written := map[int]bool{}
	for _, t := range tids {
		for _, e := range byT[t] {
			if e.Kind == "rd" || e.Kind == "wr" {
				if touched[e.Obj] == nil {
					touched[e.Obj] = map[int]bool{}
				}
				touched[e.Obj][t] = true
				if e.Kind == "wr" {
					written[e.Obj] = true
				}
			}
		}
	}
	var findings []raceFinding
	seenSig := map[string]bool{}
	in.raceStats.sharedObjs = 0
	for obj, ts := range touched {
		if len(ts) >= 2 && written[obj] {
			in.raceStats.sharedObjs++
		}
	}
	for i := 0; i < len(tids); i++ {
		for j := i + 1; j < len(tids); j++ {
			t1, t2 := byT[tids[i]], byT[tids[j]]
			for ai, a := range t1 {
				if a.Kind != "rd" && a.Kind != "wr" {
					continue
				}
				if !(len(touched[a.Obj]) >= 2 && written[a.Obj]) {
					continue
				}
				for bi, b := range t2 {
					if b.Kind != "rd" && b.Kind != "wr" {
						continue
					}
					if a.Obj != b.Obj || (a.Kind == "rd" && b.Kind == "rd") || !overlaps(a.Path, b.Path) {
						continue
					}
					in.raceStats.candidatePairs++
					var others [][]Event
					for k := range tids {
						if k != i && k != j {
							others = append(others, byT[tids[k]])
						}
					}
					smt, sig := raceQuery(t1, ai, t2, bi, others)
					if seenSig[sig+"|"+fmt.Sprint(a.Obj, a.Path, b.Path, a.Kind, b.Kind)] {
						continue
					}
					seenSig[sig+"|"+fmt.Sprint(a.Obj, a.Path, b.Path, a.Kind, b.Kind)] = true
					res, ok := in.raceCache[sig]
					if !ok {
						res = in.solver.RawCheck(smt)
						in.raceCache[sig] = res
						in.raceStats.queries++
					}
					if res == "sat" {
						findings = append(findings, raceFinding{Loc: fmt.Sprintf("obj%d/%s", a.Obj, a.Path), Desc: fmt.Sprintf("thread %d %s vs thread %d %s on object %d path %q", a.Thread, a.Kind, b.Thread, b.Kind, a.Obj, a.Path)})
					} else if res != "unsat" {
						in.unknowns++
					} else {
						in.raceStats.discharged++
					}
				}
			}
		}
	}
	return findings
}

// raceQuery builds the clock problem for access ai of thread trace t1 and access bi of t2.
// Only mutex events and the two accesses are kept. sig is a canonical signature for caching.
// The synchronisation events of the other threads take part too (an ordering may run through a third
// thread: its critical section after the writer's, its atomic store read by the reader).
func raceQuery(t1 []Event, ai int, t2 []Event, bi int, others [][]Event) (string, string) {
	var sb, sig strings.Builder
	type ev struct {
		name  string
		kind  string
		mutex string
		seq   int
	}
	trim := func(t []Event, keep int, prefix string) []ev {
		var out []ev
		for i, e := range t {
			if e.Kind == "acq" || e.Kind == "rel" || e.Kind == "racq" || e.Kind == "rrel" {
				out = append(out, ev{name: fmt.Sprintf("%s%d", prefix, len(out)), kind: e.Kind, mutex: fmt.Sprintf("m%d_%s", e.Obj, e.Path)})
			} else if e.Kind == "ast" || e.Kind == "ald" {
				out = append(out, ev{name: fmt.Sprintf("%s%d", prefix, len(out)), kind: e.Kind, mutex: fmt.Sprintf("a%d_%s", e.Obj, e.Path), seq: e.Seq})
			} else if i == keep {
				out = append(out, ev{name: fmt.Sprintf("%s%d", prefix, len(out)), kind: "acc"})
			}
		}
		return out
	}
	e1 := trim(t1, ai, "a")
	e2 := trim(t2, bi, "b")
	lists := [][]ev{e1, e2}
	for k, o := range others {
		lists = append(lists, trim(o, -1, fmt.Sprintf("o%d_", k)))
	}
	var all []string
	for _, es := range lists {
		for i, e := range es {
			fmt.Fprintf(&sb, "(declare-const %s Int)\n", e.name)
			all = append(all, e.name)
			if i > 0 {
				fmt.Fprintf(&sb, "(assert (< %s %s))\n", es[i-1].name, e.name)
			}
			fmt.Fprintf(&sig, "%s:%s:%d;", e.kind, e.mutex, e.seq)
		}
		sig.WriteString("||")
	}
	fmt.Fprintf(&sb, "(assert (distinct %s))\n", strings.Join(all, " "))
	sections := func(es []ev) []csec {
		var out []csec
		open := map[string]int{}
		for i, e := range es {
			if e.kind == "acq" || e.kind == "racq" {
				open[e.mutex] = i
			} else if e.kind == "rel" || e.kind == "rrel" {
				if a, ok := open[e.mutex]; ok {
					out = append(out, csec{mutex: e.mutex, acq: a, rel: i, read: e.kind == "rrel"})
					delete(open, e.mutex)
				}
			}
		}
		return out
	}
	for x := 0; x < len(lists); x++ {
		for y := x + 1; y < len(lists); y++ {
			lx, ly := lists[x], lists[y]
			for _, c1 := range sections(lx) {
				for _, c2 := range sections(ly) {
					if c1.mutex == c2.mutex && !(c1.read && c2.read) {
						fmt.Fprintf(&sb, "(assert (or (< %s %s) (< %s %s)))\n", lx[c1.rel].name, ly[c2.acq].name, ly[c2.rel].name, lx[c1.acq].name)
					}
				}
			}
		}
	}
	// reads-from of atomic loads is preserved: the observed store precedes the load
	for x := range lists {
		for y := range lists {
			if x == y {
				continue
			}
			for _, st := range lists[x] {
				if st.kind != "ast" {
					continue
				}
				for _, ld := range lists[y] {
					if ld.kind == "ald" && ld.mutex == st.mutex && ld.seq == st.seq {
						fmt.Fprintf(&sb, "(assert (< %s %s))\n", st.name, ld.name)
					}
				}
			}
		}
	}
	var an, bn string
	for _, e := range e1 {
		if e.kind == "acc" {
			an = e.name
		}
	}
	for _, e := range e2 {
		if e.kind == "acc" {
			bn = e.name
		}
	}
	fmt.Fprintf(&sb, "(assert (or (= %s (+ %s 1)) (= %s (+ %s 1))))\n", bn, an, an, bn)
	return sb.String(), sig.String()
}
