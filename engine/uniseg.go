package main

import (
	"go/types"
	"unicode/utf8"

	"github.com/rivo/uniseg"
	"golang.org/x/tools/go/ssa"
)

// Library model of github.com/rivo/uniseg's grapheme iterator (a dependency of go-runewidth, so a
// change to /repo can import it without touching go.mod). Like go-runewidth it is never interpreted
// (its property tables are package-level state the engine does not build).
//   - a concrete string is segmented by the real library;
//   - a string whose unknown bytes all have an ASCII domain and whose known bytes are all ASCII is
//     segmented by UAX #29 restricted to ASCII: every byte is a cluster of its own except CR LF (GB3),
//     decided by the solver per position (a fork where both are feasible);
//   - anything else (symbolic bytes next to non-ASCII text) is outside the model: ENGINE-ERROR, never a pass.
type gState struct {
	s          StrV
	start, end int // current cluster
	state      int // -1 before the first Next, -2 after the end, 0 on a cluster
	width      *Term
}

func init() {
	unisegIntrinsics = map[string]intrinsic{
		"github.com/rivo/uniseg.NewGraphemes":             iGraphemesNew,
		"(*github.com/rivo/uniseg.Graphemes).Next":        iGraphemesNext,
		"(*github.com/rivo/uniseg.Graphemes).Runes":       iGraphemesRunes,
		"(*github.com/rivo/uniseg.Graphemes).Str":         iGraphemesStr,
		"(*github.com/rivo/uniseg.Graphemes).Bytes":       iGraphemesBytes,
		"(*github.com/rivo/uniseg.Graphemes).Positions":   iGraphemesPositions,
		"(*github.com/rivo/uniseg.Graphemes).Width":       iGraphemesWidth,
		"(*github.com/rivo/uniseg.Graphemes).Reset":       iGraphemesReset,
		"github.com/rivo/uniseg.GraphemeClusterCount":     iGraphemeClusterCount,
		"github.com/rivo/uniseg.StringWidth":              iUnisegStringWidth,
	}
}

var unisegIntrinsics map[string]intrinsic

func (in *Interp) gOf(v Value) *gState {
	p := v.(PtrV)
	if p.isNil() {
		in.goPanicf("runtime error: invalid memory address or nil pointer dereference (nil *uniseg.Graphemes)")
	}
	return p.load().(*OpaqueV).data.(*gState)
}

func iGraphemesNew(in *Interp, fn *ssa.Function, a []Value) Value {
	st := &gState{s: a[0].(StrV), state: -1}
	o := in.newObj(nil, &OpaqueV{kind: "graphemes", data: st}, "uniseg.Graphemes")
	return PtrV{obj: o}
}

// clusterLen decides the byte length of the first grapheme cluster of b (len(b) > 0) and its width.
func (in *Interp) clusterLen(b []*Term) (int, *Term) {
	if cs, ok := concreteString(StrV{b: b}); ok {
		c, _, w, _ := uniseg.FirstGraphemeClusterInString(cs, -1)
		return len(c), in.intTerm(w)
	}
	for _, x := range b {
		val, known, _, _, asc := in.byteClass(x)
		if (known && val >= 0x80) || (!known && !asc) {
			in.unsupported("uniseg: grapheme clusters of symbolic text that is not confined to ASCII")
		}
	}
	if len(b) >= 2 && in.branch(in.tt.And(in.tt.Bin(OpEq, b[0], in.tt.b8[0x0d]), in.tt.Bin(OpEq, b[1], in.tt.b8[0x0a]))) {
		return 2, in.tt.Const(64, 0)
	}
	isP := in.tt.And(in.tt.Bin(OpUle, in.tt.b8[0x20], b[0]), in.tt.Bin(OpUle, b[0], in.tt.b8[0x7e]))
	return 1, in.tt.Ite(isP, in.tt.Const(64, 1), in.tt.Const(64, 0))
}

func iGraphemesNext(in *Interp, fn *ssa.Function, a []Value) Value {
	g := in.gOf(a[0])
	if g.end >= len(g.s.b) {
		g.state = -2
		g.start, g.end = len(g.s.b), len(g.s.b)
		return in.tt.Bool(false)
	}
	n, w := in.clusterLen(g.s.b[g.end:])
	g.start, g.end, g.state, g.width = g.end, g.end+n, 0, w
	return in.tt.Bool(true)
}

func (g *gState) cluster() []*Term {
	if g.state < 0 {
		return nil
	}
	return g.s.b[g.start:g.end]
}

func iGraphemesRunes(in *Interp, fn *ssa.Function, a []Value) Value {
	g := in.gOf(a[0])
	if g.state < 0 {
		return SliceV{}
	}
	c := g.cluster()
	var e []Value
	if cs, ok := concreteString(StrV{b: c}); ok {
		for _, r := range cs {
			e = append(e, in.tt.Const(32, uint64(uint32(r))))
		}
	} else {
		for _, x := range c { // ASCII by construction
			e = append(e, in.tt.Resize(x, 32, false))
		}
	}
	arr := in.newObj(types.NewArray(types.Typ[types.Int32], int64(len(e))), &ArrayV{e: e}, "uniseg runes")
	return SliceV{arr: arr, len: len(e), cap: len(e)}
}

func iGraphemesStr(in *Interp, fn *ssa.Function, a []Value) Value {
	g := in.gOf(a[0])
	return StrV{b: append([]*Term(nil), g.cluster()...)}
}

func iGraphemesBytes(in *Interp, fn *ssa.Function, a []Value) Value {
	g := in.gOf(a[0])
	if g.state < 0 {
		return SliceV{}
	}
	c := g.cluster()
	e := make([]Value, len(c))
	for i, x := range c {
		e[i] = x
	}
	arr := in.newObj(types.NewArray(types.Typ[types.Uint8], int64(len(e))), &ArrayV{e: e}, "uniseg bytes")
	return SliceV{arr: arr, len: len(e), cap: len(e)}
}

func iGraphemesPositions(in *Interp, fn *ssa.Function, a []Value) Value {
	g := in.gOf(a[0])
	switch g.state {
	case -1:
		return TupleV{in.intTerm(0), in.intTerm(0)}
	case -2:
		return TupleV{in.intTerm(1), in.intTerm(1)}
	}
	return TupleV{in.intTerm(g.start), in.intTerm(g.end)}
}

func iGraphemesWidth(in *Interp, fn *ssa.Function, a []Value) Value {
	g := in.gOf(a[0])
	if g.state < 0 {
		return in.intTerm(0)
	}
	return g.width
}

func iGraphemesReset(in *Interp, fn *ssa.Function, a []Value) Value {
	g := in.gOf(a[0])
	g.start, g.end, g.state, g.width = 0, 0, -1, nil
	return nil
}

func iGraphemeClusterCount(in *Interp, fn *ssa.Function, a []Value) Value {
	s := a[0].(StrV)
	n := 0
	for i := 0; i < len(s.b); n++ {
		l, _ := in.clusterLen(s.b[i:])
		i += l
	}
	return in.intTerm(n)
}

func iUnisegStringWidth(in *Interp, fn *ssa.Function, a []Value) Value {
	s := a[0].(StrV)
	if cs, ok := concreteString(s); ok {
		return in.intTerm(uniseg.StringWidth(cs))
	}
	sum := in.tt.Const(64, 0)
	for i := 0; i < len(s.b); {
		l, w := in.clusterLen(s.b[i:])
		sum = in.tt.Bin(OpAdd, sum, w)
		i += l
	}
	return sum
}

var _ = utf8.RuneError
