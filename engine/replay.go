package main

import (
	"sync"
	"bufio"
	"bytes"
	"encoding/json"
	"fmt"
	"os"
	"os/exec"
	"path/filepath"
	"sort"
	"strings"
)

type NativeResult struct {
	ID           int         `json:"id"`
	Harness      string      `json:"harness"`
	Failed       []string    `json:"failed"`
	Panic        string      `json:"panic"`
	Obs          [][2]string `json:"obs"`
	AssumeFailed bool        `json:"assume_failed"`
	Tags         []string    `json:"tags"`
	Reached      []string    `json:"reached"`
	Race         bool        `json:"-"`
}

// runNative runs the given cases natively through `go test -overlay` against the real build of repo.
func runNative(ld *Loaded, cases []ReplayCase, race bool, isolate bool) (map[int]*NativeResult, string, error) {
	results := map[int]*NativeResult{}
	if len(cases) == 0 {
		return results, "", nil
	}
	tmp, err := os.MkdirTemp("", "gosym-replay-")
	if err != nil {
		return nil, "", err
	}
	defer os.RemoveAll(tmp)
	// group harness functions by package dir
	byDir := map[string][]string{}
	pkgName := map[string]string{}
	for _, f := range ld.harnessFns {
		dir := filepath.Dir(ld.prog.Fset.Position(f.Pos()).Filename)
		byDir[dir] = append(byDir[dir], f.Name())
		pkgName[dir] = f.Pkg.Pkg.Name()
	}
	replace := map[string]string{}
	n := 0
	for vpath, content := range ld.overlay {
		n++
		real := filepath.Join(tmp, fmt.Sprintf("f%d_%s", n, filepath.Base(vpath)))
		if err := os.WriteFile(real, content, 0o644); err != nil {
			return nil, "", err
		}
		replace[vpath] = real
	}
	var dirs []string
	for dir, fns := range byDir {
		dirs = append(dirs, dir)
		sort.Strings(fns)
		var sb strings.Builder
		fmt.Fprintf(&sb, "package %s\n\nimport \"testing\"\n\nfunc TestVerifReplay(t *testing.T) {\n\tvfRunReplay(map[string]func(){\n", pkgName[dir])
		for _, fn := range fns {
			fmt.Fprintf(&sb, "\t\t%q: %s,\n", fn, fn)
		}
		sb.WriteString("\t})\n}\n")
		n++
		real := filepath.Join(tmp, fmt.Sprintf("f%d_replay_test.go", n))
		if err := os.WriteFile(real, []byte(sb.String()), 0o644); err != nil {
			return nil, "", err
		}
		replace[filepath.Join(dir, "zz_verif_replay_test.go")] = real
	}
	sort.Strings(dirs)
	ovj, _ := json.Marshal(map[string]interface{}{"Replace": replace})
	ovPath := filepath.Join(tmp, "overlay.json")
	os.WriteFile(ovPath, ovj, 0o644)
	cj, _ := json.Marshal(cases)
	casePath := filepath.Join(tmp, "cases.json")
	os.WriteFile(casePath, cj, 0o644)

	var log bytes.Buffer
	env := append(os.Environ(), "GOFLAGS=-mod=mod", "GOPROXY=off", "GOSUMDB=off", "GOTOOLCHAIN=local", "RUNEWIDTH_EASTASIAN=0")
	parse := func(out []byte) {
		sc := bufio.NewScanner(bytes.NewReader(out))
		sc.Buffer(make([]byte, 1<<20), 1<<26)
		for sc.Scan() {
			l := sc.Text()
			if strings.HasPrefix(l, "VFRESULT ") {
				var r NativeResult
				if e := json.Unmarshal([]byte(l[len("VFRESULT "):]), &r); e == nil {
					results[r.ID] = &r
				}
			}
		}
	}
	for di, dir := range dirs {
		rel, _ := filepath.Rel(ld.repo, dir)
		bin := filepath.Join(tmp, fmt.Sprintf("pkg%d.test", di))
		args := []string{"test", "-c", "-vet=off", "-overlay", ovPath, "-o", bin}
		if race {
			args = append(args, "-race")
		}
		args = append(args, "./"+rel)
		cmd := exec.Command("go", args...)
		cmd.Dir = ld.repo
		cmd.Env = env
		if out, err := cmd.CombinedOutput(); err != nil {
			log.Write(out)
			return results, log.String(), fmt.Errorf("building the native replay binary for %s failed: %v", rel, err)
		}
		runLoops := func(casePath string, loops int) ([]byte, error) {
			// (a single isolated case runs for seconds; a deadlocked one must not hold the check for long)
			limit := "20m"
			if isolate {
				limit = "3m"
			}
			c := exec.Command(bin, "-test.run", "^TestVerifReplay$", "-test.v", "-test.timeout", limit)
			c.Dir = dir
			c.Env = append(append([]string{}, env...), "VERIF_REPLAY_FILE="+casePath, fmt.Sprintf("VERIF_PAR_LOOPS=%d", loops))
			return c.CombinedOutput()
		}
		runOne := func(casePath string) ([]byte, error) { return runLoops(casePath, 1) }
		if !isolate {
			out, err := runOne(casePath)
			log.Write(out)
			parse(out)
			if err != nil && len(results) == 0 {
				return results, log.String(), fmt.Errorf("native replay failed in %s: %v", rel, err)
			}
			continue
		}
		// one process per case: package-level state (registries) must not leak between cases
		mine := map[string]bool{}
		for _, fn := range byDir[dir] {
			mine[fn] = true
		}
		var mu sync.Mutex
		var wg sync.WaitGroup
		sem := make(chan struct{}, 16)
		for i := range cases {
			if !mine[cases[i].Harness] {
				continue
			}
			wg.Add(1)
			sem <- struct{}{}
			go func(c ReplayCase) {
				defer wg.Done()
				defer func() { <-sem }()
				one, _ := json.Marshal([]ReplayCase{c})
				cp := filepath.Join(tmp, fmt.Sprintf("case%d_%d.json", di, c.ID))
				os.WriteFile(cp, one, 0o644)
				out, _ := runOne(cp)
				// a schedule-dependent prediction needs the interleaving to happen: repeat (batches of 8)
				hit := func(o []byte) bool {
					if bytes.Contains(o, []byte("WARNING: DATA RACE")) {
						return true
					}
					var probe NativeResult
					if i := bytes.Index(o, []byte("VFRESULT ")); i >= 0 {
						line := o[i+9:]
						if j := bytes.IndexByte(line, '\n'); j >= 0 {
							line = line[:j]
						}
						json.Unmarshal(line, &probe)
					}
					return len(probe.Failed) > 0 || probe.Panic != ""
				}
				hung := bytes.Contains(out, []byte("test timed out"))
				for rep := 0; c.Repeat > 0 && rep < c.Repeat && !hit(out) && !hung; rep += 8 {
					var bmu sync.Mutex
					var bwg sync.WaitGroup
					for b := 0; b < 8; b++ {
						bwg.Add(1)
						go func() {
							defer bwg.Done()
							o, _ := runLoops(cp, 1+8*(b%3))
							bmu.Lock()
							if hit(o) && !hit(out) {
								out = o
							}
							if bytes.Contains(o, []byte("test timed out")) {
								hung = true // a run that deadlocked: stop repeating
							}
							bmu.Unlock()
						}()
					}
					bwg.Wait()
				}
				mu.Lock()
				parse(out)
				if bytes.Contains(out, []byte("WARNING: DATA RACE")) {
					if r := results[c.ID]; r != nil {
						r.Race = true
					} else {
						results[c.ID] = &NativeResult{ID: c.ID, Harness: c.Harness, Race: true}
					}
				}
				if len(out) > 0 && !bytes.Contains(out, []byte("VFRESULT ")) {
					log.Write(out)
				}
				mu.Unlock()
			}(cases[i])
		}
		wg.Wait()
	}
	return results, log.String(), nil
}

// compareSample checks predicted observations against the native run.
func compareSample(c *ReplayCase, r *NativeResult) string {
	if r == nil {
		return "no native result"
	}
	if r.AssumeFailed {
		return "native run failed an assumption the symbolic path satisfied"
	}
	if r.Race {
		return "native run reported a data race on a path the engine found race-free"
	}
	if r.Panic != "" {
		return "native run panicked: " + r.Panic
	}
	if len(r.Failed) > 0 {
		return "native run failed assertions " + strings.Join(r.Failed, ",") + " on a path the engine proved"
	}
	if len(r.Obs) != len(c.Expect) {
		return fmt.Sprintf("observation count: predicted %d, native %d", len(c.Expect), len(r.Obs))
	}
	for i, e := range c.Expect {
		if r.Obs[i][0] != e.Label || r.Obs[i][1] != e.Val {
			return fmt.Sprintf("observation %d (%s): predicted %s, native %s=%s", i, e.Label, e.Val, r.Obs[i][0], r.Obs[i][1])
		}
	}
	return ""
}

// confirmViolation tells whether the native run reproduces the predicted failure.
func confirmViolation(v *ViolationCase, r *NativeResult) bool {
	if r == nil || r.AssumeFailed {
		return false
	}
	if v.Kind == "panic" {
		return r.Panic != ""
	}
	if v.Kind == "race" {
		// the Go detector reports it, or (for unsynchronised use of a library object that locks
		// internally) the run violates an assertion of the harness
		return r.Race || len(r.Failed) > 0
	}
	for _, f := range r.Failed {
		if f == v.Label {
			return true
		}
	}
	return false
}
