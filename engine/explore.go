package main

import (
	"encoding/hex"
	"fmt"
	"runtime/debug"
	"sort"
	"strings"
	"sync"
	"time"

	"golang.org/x/tools/go/ssa"
)

type Config struct {
	Repo       string
	HarnessDir string
	Prop       string
	Tier       string
	Seed       int64
	Workers    int
	EnumCap    int
	MaxSteps   int
	MaxPaths   int
	SampleCap  int
	Solver     string
	Trace      bool
	Only       string
	Verbose    bool
	ViolCap    int
	PreemptBound int
	SchedRepeat  int
}

type ObsVal struct {
	Label string `json:"label"`
	Val   string `json:"val"`
}

type ReplayCase struct {
	ID      int               `json:"id"`
	Harness string            `json:"harness"`
	Tier    int               `json:"tier"`
	Ints    map[string]int64  `json:"ints"`
	Strs    map[string]string `json:"strs"`
	Expect  []ObsVal          `json:"expect,omitempty"`
	// prediction
	ExpectFail  []string `json:"expect_fail,omitempty"`
	ExpectPanic string   `json:"expect_panic,omitempty"`
	Tags        []string `json:"tags,omitempty"`
	Repeat      int      `json:"repeat,omitempty"` // schedule-dependent: native runs to attempt
}

type PathResult struct {
	Harness    string
	Decisions  []Decision
	Outcome    string // ok | abort | panic | engine
	AbortWhy   string
	Panic      *goPanic
	Engine     *engineErr
	Violations []ViolationCase
	Sample     *ReplayCase
	Reached    map[string]bool
	Asserts    map[string]int
	Steps      int
	NDecisions int
	Fns        map[string]int
	Events     []Event
	PCSnapshot []*Term
	Tags       []string
	Race       struct{ sharedObjs, candidatePairs, queries, discharged int }
}

type ViolationCase struct {
	Label string
	Kind  string
	Msg   string
	Case  ReplayCase
	Key   string
	NoModel bool
}

type HarnessStats struct {
	Name        string
	Paths       int
	Completed   int
	Aborted     int
	Panics      int
	Transitions int
	Steps       int
	Asserts     map[string]int
	Reached     map[string]bool
	Labels      []string // assert labels found statically
}

type RunResult struct {
	Harness    []*HarnessStats
	Violations []ViolationCase
	Samples    []ReplayCase
	EngineErrs []string
	Unknowns   int
	FeasQ      int
	AssertQ    int
	CacheHits  int
	RaceShared, RacePairs, RaceQueries, RaceDischarged int
	Solver     SolverStats
	Fns        map[string]int
	Wall       time.Duration
	Traces     []TraceRec
}

type TraceRec struct {
	Harness string
	Events  []Event
	Model   map[string]uint64
}

func tierInt(t string) int {
	if t == "thorough" {
		return 1
	}
	return 0
}

func (in *Interp) resetPath(prefix []Decision) {
	in.pc = in.pc[:0]
	in.pcSet = map[int]bool{}
	in.pcEq = map[int]uint64{}
	in.pcNe = map[int][]uint64{}
	in.prefix = prefix
	in.decisions = make([]Decision, 0, len(prefix)+8)
	in.newWork = nil
	in.steps = 0
	in.depth = 0
	in.globals = map[*ssa.Global]*Obj{}
	in.rwCond = nil
	in.nextObj = 0
	in.nextMap = 0
	in.inputs = nil
	in.inputKinds = map[string]string{}
	in.inputOrder = nil
	in.strInputs = map[string][]*Term{}
	in.strOrder = nil
	in.choiceVals = map[string]int64{}
	in.choiceOrder = nil
	in.observes = nil
	in.reached = map[string]bool{}
	in.violations = nil
	in.asserts = map[string]int{}
	in.fnSeen = map[*ssa.Function]int{}
	in.events = nil
	in.curThread = 0
	in.stack = in.stack[:0]
	in.tags = nil
	in.extInit = map[*ssa.Package]bool{}
	in.onceDone = map[string]bool{}
	in.heldMutex = map[string]bool{}
	in.lastStore = map[string]int{}
	in.atomicSeq = 0
	in.pools = map[string][]Value{}
	in.syncMaps = nil
	in.readers = map[string]int{}
	in.sched = nil
	in.parRegions = 0
	in.solver.asserted = 0
}

func (in *Interp) buildCase(h string, m map[string]uint64) ReplayCase {
	rc := ReplayCase{Harness: h, Tier: tierInt(in.cfg.Tier), Ints: map[string]int64{}, Strs: map[string]string{}}
	for _, n := range in.inputOrder {
		v := in.tt.vars[n]
		rc.Ints[n] = signExt(m[n], maxSort(v.sort))
		if v.sort == 8 || v.sort == 0 {
			rc.Ints[n] = int64(m[n])
		}
	}
	for _, n := range in.choiceOrder {
		rc.Ints[n] = in.choiceVals[n]
	}
	for _, n := range in.strOrder {
		bs := in.strInputs[n]
		raw := make([]byte, len(bs))
		for i := range bs {
			raw[i] = byte(m[bs[i].name])
		}
		rc.Strs[n] = hex.EncodeToString(raw)
	}
	rc.Tags = append(rc.Tags, in.tags...)
	return rc
}

func maxSort(s Sort) Sort {
	if s == 0 {
		return 64
	}
	return s
}

func (in *Interp) obsString(v Value, m map[string]uint64) string {
	switch x := v.(type) {
	case *Term:
		r := in.tt.Eval(x, m)
		if x.sort == 0 {
			if r != 0 {
				return "true"
			}
			return "false"
		}
		return fmt.Sprintf("%d", signExt(r, x.sort))
	case StrV:
		raw := make([]byte, len(x.b))
		for i, b := range x.b {
			raw[i] = byte(in.tt.Eval(b, m))
		}
		return hex.EncodeToString(raw)
	}
	return fmt.Sprintf("<%T>", v)
}

// runPath executes one path of harness h following prefix.
func (in *Interp) runPath(h *ssa.Function, prefix []Decision, sample bool) (res *PathResult) {
	in.resetPath(prefix)
	res = &PathResult{Harness: h.Name()}
	finish := func() {
		res.Decisions = in.decisions
		res.NDecisions = len(in.decisions)
		res.Steps = in.steps
		res.Reached = in.reached
		res.Asserts = in.asserts
		res.Tags = in.tags
		res.Fns = map[string]int{}
		for f, n := range in.fnSeen {
			if f.Pkg != nil && in.ld.isModulePkg(f.Pkg.Pkg) && !isHarnessFn(f) {
				res.Fns[f.String()] += n
			}
		}
		for _, v := range in.violations {
			if v.Model == nil {
				res.Violations = append(res.Violations, ViolationCase{Label: v.Label, Kind: v.Kind, Msg: v.Msg, NoModel: true, Case: ReplayCase{Harness: h.Name(), Tags: append([]string(nil), in.tags...)}})
				continue
			}
			rc := in.buildCase(h.Name(), v.Model)
			rc.ExpectFail = []string{v.Label}
			if v.Kind == "race" {
				rc.ExpectFail = nil
			}
			if in.parRegions > 0 {
				rc.Repeat = in.cfg.SchedRepeat
				if v.Kind == "race" {
					rc.Repeat = 16 // the detector is happens-before based: no lucky interleaving needed
				}
			}
			res.Violations = append(res.Violations, ViolationCase{Label: v.Label, Kind: v.Kind, Msg: v.Msg, Case: rc})
		}
	}
	defer func() {
		if r := recover(); r != nil {
			switch e := r.(type) {
			case pathAbort:
				res.Outcome = "abort"
				res.AbortWhy = e.reason
				finish()
			case goPanic:
				res.Outcome = "panic"
				res.Panic = &e
				// a panic of the code under test is a violation of the harness's property
				plabel := "panic@" + e.fn
				in.violCount[plabel]++
				if in.violCount[plabel] > in.cfg.ViolCap {
					in.violations = append(in.violations, Violation{Label: plabel, Model: nil, Kind: "panic", Msg: e.msg + " at " + e.pos})
				} else if m, ok := in.model(); ok {
					in.violations = append(in.violations, Violation{Label: plabel, Model: m, Kind: "panic", Msg: e.msg + " at " + e.pos})
				} else {
					res.Outcome = "abort"
					res.AbortWhy = "panic on path without model"
				}
				finish()
				for i := range res.Violations {
					if res.Violations[i].Kind == "panic" {
						res.Violations[i].Case.ExpectFail = nil
						res.Violations[i].Case.ExpectPanic = e.msg
					}
				}
			case engineErr:
				res.Outcome = "engine"
				res.Engine = &e
				finish()
			default:
				res.Outcome = "engine"
				res.Engine = &engineErr{kind: "INTERNAL", msg: fmt.Sprintf("%v\n%s\n[in %s]", r, debug.Stack(), strings.Join(in.stack, " < "))}
				finish()
			}
		}
	}()
	// package initialisers of the module (external inits are no-ops); the state they leave is
	// snapshotted once per worker and cloned for later paths when initialisation is purely concrete
	if in.snap != nil && in.snap.harness == h {
		in.restoreSnapshot()
	} else if initFn := h.Pkg.Func("init"); initFn != nil {
		in.callFn(initFn, nil, nil)
		// table-only library packages are initialised eagerly so that the snapshot contains them
		for _, pkg := range in.prog.AllPackages() {
			if lazyInitPkgs[pkg.Pkg.Path()] && !heavyInitPkgs[pkg.Pkg.Path()] && !in.extInit[pkg] {
				if f := pkg.Func("init"); f != nil {
					in.ensureExtInit(f)
				}
			}
		}
		if !in.noSnap && len(in.decisions) == 0 && len(in.pc) == 0 && len(in.inputs) == 0 {
			in.takeSnapshot(h)
		}
	}
	in.traceOn = in.cfg.Trace
	in.callFn(h, nil, nil)
	in.traceOn = false
	res.Outcome = "ok"
	if in.cfg.Trace {
		for _, rf := range in.raceCheck(in.events) {
			label := "data-race"
			in.violCount[label]++
			if in.violCount[label] > in.cfg.ViolCap {
				in.violations = append(in.violations, Violation{Label: label, Kind: "race", Msg: rf.Desc})
				continue
			}
			if m, ok := in.model(); ok {
				in.violations = append(in.violations, Violation{Label: label, Model: m, Kind: "race", Msg: rf.Desc})
			}
		}
		if len(in.violations) > 0 {
			sample = false // a racy path is reported as a violation, not validated as race-free
		}
		res.Race = in.raceStats
		in.raceStats = struct{ sharedObjs, candidatePairs, queries, discharged int }{}
	}
	if sample {
		if m, ok := in.model(); ok {
			rc := in.buildCase(h.Name(), m)
			for _, o := range in.observes {
				rc.Expect = append(rc.Expect, ObsVal{Label: o.Label, Val: in.obsString(o.V, m)})
			}
			res.Sample = &rc
			if in.cfg.Trace {
				res.Events = in.events
			}
		}
	}
	finish()
	return res
}

// staticLabels finds vfAssert labels reachable from fn within the harness package.
func staticLabels(fn *ssa.Function, seen map[*ssa.Function]bool, out map[string]bool) {
	if seen[fn] || fn == nil {
		return
	}
	seen[fn] = true
	for _, b := range fn.Blocks {
		for _, ins := range b.Instrs {
			c, ok := ins.(ssa.CallInstruction)
			if !ok {
				if mc, ok := ins.(*ssa.MakeClosure); ok {
					staticLabels(mc.Fn.(*ssa.Function), seen, out)
				}
				continue
			}
			callee := c.Common().StaticCallee()
			if callee == nil {
				continue
			}
			if callee.Name() == "vfAssert" && len(c.Common().Args) == 2 {
				if k, ok := c.Common().Args[1].(*ssa.Const); ok {
					out[constantString(k)] = true
				}
			}
			if callee.Pkg == fn.Pkg && !strings.HasPrefix(callee.Name(), "vf") {
				staticLabels(callee, seen, out)
			}
		}
	}
	for _, af := range fn.AnonFuncs {
		staticLabels(af, seen, out)
	}
}

func constantString(k *ssa.Const) string {
	s := k.Value.ExactString()
	if len(s) >= 2 && s[0] == '"' {
		var out string
		fmt.Sscanf(s, "%q", &out)
		return out
	}
	return s
}

// Explore runs all harness functions of the loaded property to exhaustion of their path trees.
func Explore(ld *Loaded, cfg *Config) *RunResult {
	t0 := time.Now()
	rr := &RunResult{Fns: map[string]int{}}
	var mu sync.Mutex
	for _, h := range ld.harnessFns {
		if cfg.Only != "" && !strings.Contains(h.Name(), cfg.Only) {
			continue
		}
		hs := &HarnessStats{Name: h.Name(), Asserts: map[string]int{}, Reached: map[string]bool{}}
		lbl := map[string]bool{}
		staticLabels(h, map[*ssa.Function]bool{}, lbl)
		for l := range lbl {
			hs.Labels = append(hs.Labels, l)
		}
		sort.Strings(hs.Labels)
		rr.Harness = append(rr.Harness, hs)

		work := []workItem{{}}
		active := 0
		cond := sync.NewCond(&mu)
		stop := false
		samples := 0
		var wg sync.WaitGroup
		for w := 0; w < cfg.Workers; w++ {
			wg.Add(1)
			go func(w int) {
				defer wg.Done()
				tt := NewTermTable()
				sv, err := NewSolver(cfg.Solver, tt)
				if err != nil {
					mu.Lock()
					rr.EngineErrs = append(rr.EngineErrs, "solver start: "+err.Error())
					stop = true
					cond.Broadcast()
					mu.Unlock()
					return
				}
				defer sv.Close()
				in := &Interp{prog: ld.prog, ld: ld, tt: tt, solver: sv, cfg: cfg, maxSteps: cfg.MaxSteps, qcache: map[string]string{}, ecache: map[string][]int64{}, violCount: map[string]int{}, raceCache: map[string]string{}, fnInfos: map[*ssa.Function]*fnInfo{}, fnMetas: map[*ssa.Function]*fnMeta{}, varCache: map[int][]int{}, varIDs: map[string]int{}}
				for {
					mu.Lock()
					for len(work) == 0 && active > 0 && !stop {
						cond.Wait()
					}
					if stop || (len(work) == 0 && active == 0) {
						cond.Broadcast()
						mu.Unlock()
						break
					}
					prefix := work[len(work)-1].prefix()
					work[len(work)-1] = workItem{}
					work = work[:len(work)-1]
					active++
					doSample := samples < cfg.SampleCap
					if doSample {
						samples++
					}
					mu.Unlock()

					if in.tt.next > 1200000 || len(in.qcache) > 600000 || in.cacheBytes > 256<<20 {
						// bound memory: start over with a fresh term table (terms never cross paths;
						// everything keyed by term ids goes with it, including the init snapshot)
						in.tt = NewTermTable()
						in.solver.tt = in.tt
						in.solver.Reset()
						in.qcache = map[string]string{}
						in.cacheBytes = 0
						in.ecache = map[string][]int64{}
						in.varCache = map[int][]int{}
						in.varIDs = map[string]int{}
						in.raceCache = map[string]string{}
						in.snap = nil
					}
					res := in.runPath(h, prefix, doSample)

					mu.Lock()
					active--
					work = append(work, in.newWork...)
					hs.Paths++
					hs.Transitions += res.NDecisions
					hs.Steps += res.Steps
					rr.RaceShared += res.Race.sharedObjs
					rr.RacePairs += res.Race.candidatePairs
					rr.RaceQueries += res.Race.queries
					rr.RaceDischarged += res.Race.discharged
					for l, n := range res.Asserts {
						hs.Asserts[l] += n
					}
					for l := range res.Reached {
						hs.Reached[l] = true
					}
					for f, n := range res.Fns {
						rr.Fns[f] += n
					}
					switch res.Outcome {
					case "ok":
						hs.Completed++
						if res.Sample != nil {
							res.Sample.ID = len(rr.Samples)
							rr.Samples = append(rr.Samples, *res.Sample)
							if cfg.Trace {
								rr.Traces = append(rr.Traces, TraceRec{Harness: h.Name(), Events: res.Events})
							}
						}
					case "abort":
						hs.Aborted++
					case "panic":
						hs.Panics++
					case "engine":
						rr.EngineErrs = append(rr.EngineErrs, fmt.Sprintf("%s: %s: %s", h.Name(), res.Engine.kind, res.Engine.msg))
						if len(rr.EngineErrs) > 400 {
							stop = true
						}
					}
					rr.Violations = append(rr.Violations, res.Violations...)
					if cfg.MaxPaths > 0 && hs.Paths >= cfg.MaxPaths {
						rr.EngineErrs = append(rr.EngineErrs, fmt.Sprintf("%s: BOUND-EXCEEDED: path cap %d reached", h.Name(), cfg.MaxPaths))
						stop = true
					}
					if cfg.Verbose && hs.Paths%500 == 0 {
						fmt.Printf("  [%s] paths=%d queue=%d violations=%d\n", h.Name(), hs.Paths, len(work), len(rr.Violations))
					}
					cond.Broadcast()
					mu.Unlock()
				}
				mu.Lock()
				rr.Unknowns += in.unknowns
				rr.FeasQ += in.stats.feasQ
				rr.AssertQ += in.stats.assertQ
				rr.CacheHits += in.stats.cacheHits
				rr.Solver.Queries += sv.stats.Queries
				rr.Solver.Sat += sv.stats.Sat
				rr.Solver.Unsat += sv.stats.Unsat
				rr.Solver.Unknown += sv.stats.Unknown
				rr.Solver.Errors += sv.stats.Errors
				rr.Solver.WallNs += sv.stats.WallNs
				mu.Unlock()
			}(w)
		}
		wg.Wait()
	}
	rr.Wall = time.Since(t0)
	return rr
}

// isHarnessFn tells whether f belongs to the injected harness files rather than to /repo.
func isHarnessFn(f *ssa.Function) bool {
	for g := f; g != nil; g = g.Parent() {
		if g.Pos().IsValid() {
			name := g.Prog.Fset.Position(g.Pos()).Filename
			return strings.Contains(name, "zz_verif_")
		}
	}
	n := strings.ToLower(f.Name())
	return strings.HasPrefix(n, "vf") || strings.HasPrefix(n, "verif") || strings.Contains(strings.ToLower(f.String()), ".vf")
}
