package main

import "go/types"

// Go 1.23 runtime slice growth (runtime/slice.go nextslicecap + growslice rounding,
// runtime/msize.go roundupsize, runtime/sizeclasses.go).

var classToSize = []int64{0, 8, 16, 24, 32, 48, 64, 80, 96, 112, 128, 144, 160, 176, 192, 208, 224, 240, 256, 288, 320, 352, 384, 416, 448, 480, 512, 576, 640, 704, 768, 896, 1024, 1152, 1280, 1408, 1536, 1792, 2048, 2304, 2688, 3072, 3200, 3456, 4096, 4864, 5376, 6144, 6528, 6784, 6912, 8192, 9472, 9728, 10240, 10880, 12288, 13568, 14336, 16384, 18432, 19072, 20480, 21760, 24576, 27264, 28672, 32768}

func roundUpSize(size int64, noscan bool) int64 {
	const maxSmallSize = 32768
	const mallocHeaderSize = 8
	const minSizeForMallocHeader = 512
	req := size
	if req <= maxSmallSize-mallocHeaderSize {
		if !noscan && req > minSizeForMallocHeader {
			req += mallocHeaderSize
		}
		for _, c := range classToSize {
			if c >= req {
				return c - (req - size)
			}
		}
	}
	const pageSize = 8192
	req += pageSize - 1
	return req &^ (pageSize - 1)
}

func nextSliceCap(newLen, oldCap int) int {
	newcap := oldCap
	doublecap := newcap + newcap
	if newLen > doublecap {
		return newLen
	}
	const threshold = 256
	if oldCap < threshold {
		return doublecap
	}
	for {
		newcap += (newcap + 3*threshold) >> 2
		if uint(newcap) >= uint(newLen) {
			break
		}
	}
	if newcap <= 0 {
		return newLen
	}
	return newcap
}

var growNoscan = true // set per call by growCapT

func growCap(oldCap, newLen int, esz int64) int {
	return growCapNS(oldCap, newLen, esz, false)
}

func growCapNS(oldCap, newLen int, esz int64, noscan bool) int {
	newcap := nextSliceCap(newLen, oldCap)
	if esz == 0 {
		return newcap
	}
	mem := roundUpSize(int64(newcap)*esz, noscan)
	return int(mem / esz)
}

func hasPointers(t types.Type) bool {
	switch u := t.Underlying().(type) {
	case *types.Basic:
		return u.Info()&types.IsString != 0 || u.Kind() == types.UnsafePointer
	case *types.Struct:
		for i := 0; i < u.NumFields(); i++ {
			if hasPointers(u.Field(i).Type()) {
				return true
			}
		}
		return false
	case *types.Array:
		return u.Len() > 0 && hasPointers(u.Elem())
	}
	return true
}
