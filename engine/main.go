package main

import (
	"runtime/debug"
	"runtime/pprof"
	"crypto/sha1"
	"encoding/json"
	"flag"
	"fmt"
	"os"
	"path/filepath"
	"runtime"
	"sort"
	"strconv"
	"strings"
	"time"
)

const verifDir = "/verif"

type KnownFinding struct {
	Prop string
	Key  string
	Text string
}

func loadKnown(path string) (known []KnownFinding, fixed []string) {
	b, err := os.ReadFile(path)
	if err != nil {
		return nil, nil
	}
	for _, l := range strings.Split(string(b), "\n") {
		l = strings.TrimSpace(l)
		if strings.HasPrefix(l, "known:") {
			f := strings.Fields(l[len("known:"):])
			k := KnownFinding{}
			var rest []string
			for _, w := range f {
				switch {
				case strings.HasPrefix(w, "property=") && k.Prop == "":
					k.Prop = w[len("property="):]
				case strings.HasPrefix(w, "key=") && k.Key == "":
					k.Key = w[len("key="):]
				default:
					rest = append(rest, w)
				}
			}
			k.Text = strings.Join(rest, " ")
			known = append(known, k)
		} else if strings.HasPrefix(l, "fixed:") {
			fixed = append(fixed, l)
		}
	}
	return
}

func violationKey(v *ViolationCase) string {
	k := v.Case.Harness + "/" + v.Label
	if len(v.Case.Tags) > 0 {
		t := append([]string(nil), v.Case.Tags...)
		sort.Strings(t)
		t = uniq(t)
		k += "/" + strings.Join(t, ",")
	}
	return k
}

func uniq(s []string) []string {
	var out []string
	for i, x := range s {
		if i == 0 || x != s[i-1] {
			out = append(out, x)
		}
	}
	return out
}

type Evidence struct {
	PropertyID  string                 `json:"property_id"`
	Tier        string                 `json:"tier"`
	Seed        int64                  `json:"seed"`
	Level       string                 `json:"level"`
	Coverage    map[string]interface{} `json:"coverage"`
	Assumptions []string               `json:"assumptions"`
	WallS       float64                `json:"wall_s"`
	Violations  int                    `json:"violations"`
}

func main() {
	debug.SetGCPercent(600)
	if len(os.Args) < 2 {
		fmt.Fprintln(os.Stderr, "usage: gosym check <ID> [flags] | gosym replay <file>")
		os.Exit(2)
	}
	switch os.Args[1] {
	case "check":
		os.Exit(cmdCheck(os.Args[2:]))
	case "replay":
		os.Exit(cmdReplay(os.Args[2:]))
	case "selfcheck":
		os.Exit(cmdSelfcheck(os.Args[2:]))
	default:
		fmt.Fprintln(os.Stderr, "unknown command", os.Args[1])
		os.Exit(2)
	}
}

func cmdCheck(args []string) int {
	fs := flag.NewFlagSet("check", flag.ExitOnError)
	tier := fs.String("tier", envOr("VERIF_TIER", "quick"), "quick|thorough")
	repo := fs.String("repo", "/repo", "repository under test")
	hdir := fs.String("harness", filepath.Join(verifDir, "harness"), "harness directory")
	workers := fs.Int("workers", runtime.NumCPU(), "worker count")
	only := fs.String("only", "", "run only harness functions containing this string")
	noReplay := fs.Bool("no-replay", false, "skip native replay (debug only; never a pass)")
	verbose := fs.Bool("v", false, "verbose")
	solver := fs.String("solver", "z3", "z3|z3-new|cvc5")
	maxPaths := fs.Int("max-paths", 2000000, "path cap per harness")
	evDir := fs.String("evidence", filepath.Join(verifDir, "evidence"), "evidence directory")
	cpuprof := fs.String("cpuprofile", "", "write cpu profile")
	var id string
	if len(args) > 0 && !strings.HasPrefix(args[0], "-") {
		id = args[0]
		args = args[1:]
	}
	fs.Parse(args)
	if id == "" {
		fmt.Fprintln(os.Stderr, "missing property id")
		return 2
	}
	seed, _ := strconv.ParseInt(envOr("VERIF_SEED", "0"), 10, 64)
	if *cpuprof != "" {
		f, _ := os.Create(*cpuprof)
		pprof.StartCPUProfile(f)
		defer pprof.StopCPUProfile()
	}
	t0 := time.Now()
	cfg := &Config{Repo: *repo, HarnessDir: *hdir, Prop: id, Tier: *tier, Seed: seed, Workers: *workers,
		EnumCap: 64, ViolCap: 4, PreemptBound: 1, SchedRepeat: 400, MaxSteps: 5000000, MaxPaths: *maxPaths, SampleCap: 48, Solver: *solver, Only: *only, Verbose: *verbose}
	if *tier == "thorough" {
		cfg.SampleCap = 128
		cfg.PreemptBound = 3
		if *maxPaths == 2000000 {
			cfg.MaxPaths = 10000000 // the default cap of the thorough tier
		}
	}
	pc := propConfig(id)
	cfg.Trace = pc.Trace
	fmt.Printf("gosym: property %s tier %s repo %s\n", id, *tier, *repo)
	ld, err := Load(*repo, *hdir, id)
	if err != nil {
		fmt.Println("ENGINE-ERROR load:", err)
		return 3
	}
	tLoad := time.Since(t0)
	fmt.Printf("gosym: loaded %d harness function(s) in %.1fs (repo HEAD %s dirty=%v)\n", len(ld.harnessFns), tLoad.Seconds(), short(ld.repoHead), ld.repoDirty)
	if len(ld.harnessFns) == 0 {
		fmt.Println("ENGINE-ERROR no harness functions for", id)
		return 3
	}
	stubReport, stubErr := validateStubs(ld, cfg)
	if stubErr != nil {
		fmt.Println("ENGINE-ERROR stub validation:", stubErr)
		return 3
	}
	if os.Getenv("GOSYM_QSTAT") != "" {
		qstat = map[string]int{}
	}
	rr := Explore(ld, cfg)
	if qstat != nil {
		type kv struct {
			k string
			v int
		}
		var kvs []kv
		for k, v := range qstat {
			kvs = append(kvs, kv{k, v})
		}
		sort.Slice(kvs, func(i, j int) bool { return kvs[i].v > kvs[j].v })
		for i := 0; i < len(kvs) && i < 25; i++ {
			fmt.Printf("QSTAT %7d %s\n", kvs[i].v, kvs[i].k)
		}
	}
	engineProblem := false
	{
		seenErr := map[string]int{}
		for _, e := range rr.EngineErrs {
			k := e
			if i := strings.Index(k, " [in "); i > 0 {
				k = k[:i]
			}
			seenErr[k]++
			if seenErr[k] == 1 && len(seenErr) <= 12 {
				fmt.Println("ENGINE-ERROR", e)
			}
			engineProblem = true
		}
		for k, n := range seenErr {
			if n > 1 {
				fmt.Printf("ENGINE-ERROR (%d paths) %s\n", n, k)
			}
		}
	}
	if rr.Unknowns > 0 || rr.Solver.Errors > 0 {
		fmt.Printf("ENGINE-ERROR %d inconclusive solver answers, %d solver error lines\n", rr.Unknowns, rr.Solver.Errors)
		engineProblem = true
	}
	states, transitions := 0, 0
	var vac []string
	for _, hs := range rr.Harness {
		states += hs.Completed + hs.Panics
		transitions += hs.Transitions
		fmt.Printf("  %-40s paths=%d completed=%d aborted=%d panics=%d decisions=%d steps=%d\n", hs.Name, hs.Paths, hs.Completed, hs.Aborted, hs.Panics, hs.Transitions, hs.Steps)
		if hs.Completed+hs.Panics == 0 {
			vac = append(vac, hs.Name+": no path completes (vacuity twin not violated)")
		}
	}
	{
		// every assertion label reachable from the harnesses must be evaluated on at least one path
		hit := map[string]int{}
		all := map[string]bool{}
		for _, hs := range rr.Harness {
			for _, l := range hs.Labels {
				all[l] = true
			}
			for l, n := range hs.Asserts {
				hit[l] += n
			}
		}
		var ls []string
		for l := range all {
			ls = append(ls, l)
		}
		sort.Strings(ls)
		for _, l := range ls {
			if hit[l] == 0 {
				vac = append(vac, "assertion "+l+" never evaluated")
			}
		}
	}
	if len(vac) > 0 && !engineProblem && len(rr.Violations) == 0 {
		for _, v := range vac {
			fmt.Println("ENGINE-ERROR VACUOUS", v)
		}
		engineProblem = true
	}

	// ---- native replay: validate samples, confirm violations
	known, _ := loadKnown(filepath.Join(verifDir, "known_findings.txt"))
	byKey := map[string][]*ViolationCase{}
	var keys []string
	for i := range rr.Violations {
		v := &rr.Violations[i]
		v.Key = violationKey(v)
		if _, ok := byKey[v.Key]; !ok {
			keys = append(keys, v.Key)
		}
		byKey[v.Key] = append(byKey[v.Key], v)
	}
	sort.Strings(keys)
	var cases []ReplayCase
	for i := range rr.Samples {
		c := rr.Samples[i]
		c.ID = len(cases)
		cases = append(cases, c)
	}
	nSamples := len(cases)
	type pend struct {
		v  *ViolationCase
		id int
	}
	var pending []pend
	for _, k := range keys {
		vs := byKey[k]
		taken := 0
		for _, v := range vs {
			if taken >= 3 {
				break
			}
			if v.NoModel {
				continue
			}
			taken++
			c := v.Case
			c.ID = len(cases)
			cases = append(cases, c)
			pending = append(pending, pend{v, c.ID})
		}
	}
	validated := 0
	confirmedKeys := map[string]*ViolationCase{}
	var mismatches []string
	if !*noReplay {
		res, log, err := runNative(ld, cases, pc.Race, pc.Isolate)
		if err != nil {
			fmt.Println("ENGINE-ERROR native replay:", err)
			fmt.Println(tail(log, 40))
			engineProblem = true
		} else {
			for i := 0; i < nSamples; i++ {
				if why := compareSample(&cases[i], res[cases[i].ID]); why != "" {
					mismatches = append(mismatches, fmt.Sprintf("%s case %d: %s", cases[i].Harness, i, why))
				} else {
					validated++
				}
			}
			for _, p := range pending {
				if confirmViolation(p.v, res[p.id]) {
					if _, ok := confirmedKeys[p.v.Key]; !ok {
						vc := *p.v
						if r := res[p.id]; r != nil {
							vc.Case.Tags = r.Tags
						}
						confirmedKeys[p.v.Key] = &vc
					}
				} else {
					why := "no native result"
					if r := res[p.id]; r != nil {
						why = fmt.Sprintf("native: failed=%v panic=%q assumeFailed=%v", r.Failed, r.Panic, r.AssumeFailed)
					}
					mismatches = append(mismatches, fmt.Sprintf("%s violation %s [%s] did not reproduce (%s) inputs: ints=%v strs=%v", p.v.Case.Harness, p.v.Label, p.v.Msg, why, p.v.Case.Ints, p.v.Case.Strs))
				}
			}
		}
	}
	for i, m := range mismatches {
		if i < 8 {
			fmt.Println("ENGINE-MISMATCH", m)
		} else if i == 8 {
			fmt.Printf("ENGINE-MISMATCH ... and %d more\n", len(mismatches)-8)
		}
		engineProblem = true
	}

	// ---- classify
	exit := 0
	nViol := 0
	var knownHit []string
	os.MkdirAll(filepath.Join(verifDir, "replays"), 0o755)
	var ckeys []string
	for k := range confirmedKeys {
		ckeys = append(ckeys, k)
	}
	sort.Strings(ckeys)
	for _, k := range ckeys {
		v := confirmedKeys[k]
		isKnown := false
		for _, kf := range known {
			if kf.Prop == id && kf.Key == k {
				fmt.Printf("KNOWN-FINDING: property=%s %s [%s] (%d path(s))\n", id, kf.Text, k, len(byKey[k]))
				knownHit = append(knownHit, k)
				isKnown = true
			}
		}
		if isKnown {
			continue
		}
		nViol++
		blob, _ := json.MarshalIndent(map[string]interface{}{"property": id, "key": k, "kind": v.Kind, "label": v.Label, "msg": v.Msg, "case": v.Case, "tier": *tier}, "", " ")
		h := sha1.Sum(blob)
		path := filepath.Join(verifDir, "replays", fmt.Sprintf("%s-%x.json", id, h[:6]))
		os.WriteFile(path, blob, 0o644)
		fmt.Printf("VIOLATION property=%s replay=%s\n", id, path)
		fmt.Printf("  key=%s kind=%s %s paths=%d ints=%v strs=%v\n", k, v.Kind, v.Msg, len(byKey[k]), v.Case.Ints, v.Case.Strs)
		exit = 1
	}
	if exit == 0 && engineProblem {
		exit = 3
	}

	// ---- evidence
	var fnNames []string
	for f := range rr.Fns {
		fnNames = append(fnNames, f)
	}
	sort.Strings(fnNames)
	var samples []interface{}
	for i := 0; i < len(rr.Samples) && i < 6; i++ {
		s := rr.Samples[i]
		samples = append(samples, map[string]interface{}{"harness": s.Harness, "ints": s.Ints, "strs_hex": s.Strs, "predicted_observations": s.Expect})
	}
	if len(samples) == 0 {
		samples = append(samples, map[string]interface{}{"note": "no completed path produced a sample"})
	}
	var hstats []interface{}
	for _, hs := range rr.Harness {
		hstats = append(hstats, map[string]interface{}{"harness": hs.Name, "paths": hs.Paths, "completed": hs.Completed, "aborted_infeasible_or_assumed": hs.Aborted, "panic_paths": hs.Panics, "decisions": hs.Transitions, "ssa_steps": hs.Steps, "assert_hits": hs.Asserts, "assert_labels": hs.Labels})
	}
	if states == 0 {
		states = 0
	}
	ev := Evidence{PropertyID: id, Tier: *tier, Seed: seed, Level: "model_checking", WallS: time.Since(t0).Seconds(), Violations: nViol,
		Coverage: map[string]interface{}{
			"states":                        states,
			"transitions":                   transitions,
			"traces_validated_against_impl": validated,
			"samples":                       samples,
			"exhaustive":                    !engineProblem,
			"explanation":                   "states = feasible symbolic paths of the harnesses explored to completion (each stands for every input satisfying its path condition); transitions = branch/choice/value/assert decisions taken; traces validated = path models replayed natively with predicted == observed outputs",
			"functions_encoded":             fnNames,
			"harnesses":                     hstats,
			"bounds":                        pc.Bounds[*tier],
			"outside_bounds":                pc.Outside,
			"queries":                       map[string]int{"cache_hits": rr.CacheHits, "feasibility": rr.FeasQ, "assertion": rr.AssertQ, "sat": rr.Solver.Sat, "unsat": rr.Solver.Unsat, "unknown": rr.Solver.Unknown, "error_lines": rr.Solver.Errors},
			"solver":                        *solver,
			"solver_s":                      float64(rr.Solver.WallNs) / 1e9,
			"explore_wall_s":                rr.Wall.Seconds(),
			"load_s":                        tLoad.Seconds(),
			"stubs_validated":               stubReport,
			"schedule_analysis":             map[string]int{"shared_written_objects": rr.RaceShared, "candidate_pairs": rr.RacePairs, "clock_queries": rr.RaceQueries, "pairs_discharged_unsat": rr.RaceDischarged},
			"known_findings_hit":            knownHit,
			"vacuity":                       map[string]interface{}{"problems": vac},
			"repo_head":                     ld.repoHead,
			"repo_dirty":                    ld.repoDirty,
			"engine_problems":               engineProblem,
		},
		Assumptions: pc.Assumptions,
	}
	os.MkdirAll(*evDir, 0o755)
	eb, _ := json.MarshalIndent(ev, "", " ")
	os.WriteFile(filepath.Join(*evDir, id+".json"), eb, 0o644)
	fmt.Printf("gosym: %s %s: states=%d transitions=%d validated=%d/%d violations=%d known=%d engine_problem=%v wall=%.1fs (solver %.1fs, %d queries, %d cache hits)\n",
		id, *tier, states, transitions, validated, nSamples, nViol, len(knownHit), engineProblem, time.Since(t0).Seconds(), float64(rr.Solver.WallNs)/1e9, rr.Solver.Queries, rr.CacheHits)
	return exit
}

func cmdReplay(args []string) int {
	if len(args) < 1 {
		fmt.Fprintln(os.Stderr, "usage: gosym replay <file> [--repo DIR]")
		return 2
	}
	repo := "/repo"
	for i, a := range args {
		if a == "--repo" && i+1 < len(args) {
			repo = args[i+1]
		}
	}
	b, err := os.ReadFile(args[0])
	if err != nil {
		fmt.Println(err)
		return 2
	}
	var doc struct {
		Property string
		Key      string
		Kind     string
		Label    string
		Case     ReplayCase
	}
	if err := json.Unmarshal(b, &doc); err != nil {
		fmt.Println(err)
		return 2
	}
	ld, err := Load(repo, filepath.Join(verifDir, "harness"), doc.Property)
	if err != nil {
		fmt.Println("load:", err)
		return 3
	}
	doc.Case.ID = 0
	res, log, err := runNative(ld, []ReplayCase{doc.Case}, propConfig(doc.Property).Race, true)
	if err != nil {
		fmt.Println(log)
		fmt.Println(err)
		return 3
	}
	r := res[0]
	if r == nil {
		fmt.Println(log)
		fmt.Println("no result")
		return 3
	}
	fmt.Printf("native run of %s: failed=%v panic=%q obs=%v\n", doc.Case.Harness, r.Failed, r.Panic, r.Obs)
	v := ViolationCase{Label: doc.Label, Kind: doc.Kind}
	if confirmViolation(&v, r) {
		fmt.Printf("VIOLATION property=%s replay=%s\n", doc.Property, args[0])
		return 1
	}
	fmt.Println("violation did not reproduce")
	return 0
}

func envOr(k, d string) string {
	if v := os.Getenv(k); v != "" {
		return v
	}
	return d
}

func short(s string) string {
	if len(s) > 10 {
		return s[:10]
	}
	return s
}

func tail(s string, n int) string {
	ls := strings.Split(s, "\n")
	if len(ls) > n {
		ls = ls[len(ls)-n:]
	}
	return strings.Join(ls, "\n")
}
