package auto

import (
	"go.pennock.tech/tabular"
	"go.pennock.tech/tabular/csv"
	"go.pennock.tech/tabular/json"
	"go.pennock.tech/tabular/markdown"
	"go.pennock.tech/tabular/texttable"
	"go.pennock.tech/tabular/texttable/decoration"
)

var vfDecoNames = []string{decoration.D_UTF8_HEAVY, decoration.D_NONE, decoration.D_ASCII_SIMPLE, decoration.D_UTF8_LIGHT, decoration.D_UTF8_LIGHT_CURVED, decoration.D_UTF8_DOUBLE}

// an item whose declared size may disagree with its text
type vfSizedItem struct {
	s    string
	w, h int
}

func (x vfSizedItem) String() string         { return x.s }
func (x vfSizedItem) TerminalCellWidth() int { return x.w }
func (x vfSizedItem) Height() int            { return x.h }

// a text-like item (it has String) that encoding/json refuses to encode
type vfUnencodable struct {
	F func()
	s string
}

func (x vfUnencodable) String() string { return x.s }

// vfRenderAll renders t in every format (text under ndeco decorations) and checks the total-renderer
// contract on each: either complete output or an error with empty text.
func vfRenderAll(t tabular.Table, ndeco int, withHTML bool) {
	check := func(out string, err error, tag string) {
		if err != nil {
			vfAssert(out == "", tag+"-error-means-no-text")
		}
		vfObserveStr(tag, out)
		vfObserveBool(tag+"-err", err != nil)
	}
	{
		out, err := csv.Render(t)
		check(out, err, "csv")
	}
	{
		out, err := json.Render(t)
		check(out, err, "json")
	}
	{
		out, err := markdown.Render(t)
		check(out, err, "markdown")
	}
	for d := 0; d < ndeco; d++ {
		tt := texttable.Wrap(t)
		tt.SetDecorationNamed(vfDecoNames[d])
		out, err := tt.Render()
		check(out, err, "text-"+vfDecoNames[d])
	}
	styles := []string{"csv", "json", "markdown", "texttable", "utf8-light"}
	if vfTier() == 0 {
		styles = []string{"markdown.x", "texttable.ascii-simple"}
	}
	for _, style := range styles {
		out, err := Render(t, style)
		check(out, err, "auto-"+style)
	}
	if withHTML {
		out, err := Render(t, "html")
		check(out, err, "auto-html")
	}
}
