package tabular

// generated: one pointer-receiver type per subset of {String, GoString, Error, Height, TerminalCellWidth}

type vfT00 struct {
	s, g, e string
	h, w    int
}

type vfT01 struct {
	s, g, e string
	h, w    int
}

func (x *vfT01) String() string { return x.s }

type vfT02 struct {
	s, g, e string
	h, w    int
}

func (x *vfT02) GoString() string { return x.g }

type vfT03 struct {
	s, g, e string
	h, w    int
}

func (x *vfT03) String() string   { return x.s }
func (x *vfT03) GoString() string { return x.g }

type vfT04 struct {
	s, g, e string
	h, w    int
}

func (x *vfT04) Error() string { return x.e }

type vfT05 struct {
	s, g, e string
	h, w    int
}

func (x *vfT05) String() string { return x.s }
func (x *vfT05) Error() string  { return x.e }

type vfT06 struct {
	s, g, e string
	h, w    int
}

func (x *vfT06) GoString() string { return x.g }
func (x *vfT06) Error() string    { return x.e }

type vfT07 struct {
	s, g, e string
	h, w    int
}

func (x *vfT07) String() string   { return x.s }
func (x *vfT07) GoString() string { return x.g }
func (x *vfT07) Error() string    { return x.e }

type vfT08 struct {
	s, g, e string
	h, w    int
}

func (x *vfT08) Height() int { return x.h }

type vfT09 struct {
	s, g, e string
	h, w    int
}

func (x *vfT09) String() string { return x.s }
func (x *vfT09) Height() int    { return x.h }

type vfT10 struct {
	s, g, e string
	h, w    int
}

func (x *vfT10) GoString() string { return x.g }
func (x *vfT10) Height() int      { return x.h }

type vfT11 struct {
	s, g, e string
	h, w    int
}

func (x *vfT11) String() string   { return x.s }
func (x *vfT11) GoString() string { return x.g }
func (x *vfT11) Height() int      { return x.h }

type vfT12 struct {
	s, g, e string
	h, w    int
}

func (x *vfT12) Error() string { return x.e }
func (x *vfT12) Height() int   { return x.h }

type vfT13 struct {
	s, g, e string
	h, w    int
}

func (x *vfT13) String() string { return x.s }
func (x *vfT13) Error() string  { return x.e }
func (x *vfT13) Height() int    { return x.h }

type vfT14 struct {
	s, g, e string
	h, w    int
}

func (x *vfT14) GoString() string { return x.g }
func (x *vfT14) Error() string    { return x.e }
func (x *vfT14) Height() int      { return x.h }

type vfT15 struct {
	s, g, e string
	h, w    int
}

func (x *vfT15) String() string   { return x.s }
func (x *vfT15) GoString() string { return x.g }
func (x *vfT15) Error() string    { return x.e }
func (x *vfT15) Height() int      { return x.h }

type vfT16 struct {
	s, g, e string
	h, w    int
}

func (x *vfT16) TerminalCellWidth() int { return x.w }

type vfT17 struct {
	s, g, e string
	h, w    int
}

func (x *vfT17) String() string         { return x.s }
func (x *vfT17) TerminalCellWidth() int { return x.w }

type vfT18 struct {
	s, g, e string
	h, w    int
}

func (x *vfT18) GoString() string       { return x.g }
func (x *vfT18) TerminalCellWidth() int { return x.w }

type vfT19 struct {
	s, g, e string
	h, w    int
}

func (x *vfT19) String() string         { return x.s }
func (x *vfT19) GoString() string       { return x.g }
func (x *vfT19) TerminalCellWidth() int { return x.w }

type vfT20 struct {
	s, g, e string
	h, w    int
}

func (x *vfT20) Error() string          { return x.e }
func (x *vfT20) TerminalCellWidth() int { return x.w }

type vfT21 struct {
	s, g, e string
	h, w    int
}

func (x *vfT21) String() string         { return x.s }
func (x *vfT21) Error() string          { return x.e }
func (x *vfT21) TerminalCellWidth() int { return x.w }

type vfT22 struct {
	s, g, e string
	h, w    int
}

func (x *vfT22) GoString() string       { return x.g }
func (x *vfT22) Error() string          { return x.e }
func (x *vfT22) TerminalCellWidth() int { return x.w }

type vfT23 struct {
	s, g, e string
	h, w    int
}

func (x *vfT23) String() string         { return x.s }
func (x *vfT23) GoString() string       { return x.g }
func (x *vfT23) Error() string          { return x.e }
func (x *vfT23) TerminalCellWidth() int { return x.w }

type vfT24 struct {
	s, g, e string
	h, w    int
}

func (x *vfT24) Height() int            { return x.h }
func (x *vfT24) TerminalCellWidth() int { return x.w }

type vfT25 struct {
	s, g, e string
	h, w    int
}

func (x *vfT25) String() string         { return x.s }
func (x *vfT25) Height() int            { return x.h }
func (x *vfT25) TerminalCellWidth() int { return x.w }

type vfT26 struct {
	s, g, e string
	h, w    int
}

func (x *vfT26) GoString() string       { return x.g }
func (x *vfT26) Height() int            { return x.h }
func (x *vfT26) TerminalCellWidth() int { return x.w }

type vfT27 struct {
	s, g, e string
	h, w    int
}

func (x *vfT27) String() string         { return x.s }
func (x *vfT27) GoString() string       { return x.g }
func (x *vfT27) Height() int            { return x.h }
func (x *vfT27) TerminalCellWidth() int { return x.w }

type vfT28 struct {
	s, g, e string
	h, w    int
}

func (x *vfT28) Error() string          { return x.e }
func (x *vfT28) Height() int            { return x.h }
func (x *vfT28) TerminalCellWidth() int { return x.w }

type vfT29 struct {
	s, g, e string
	h, w    int
}

func (x *vfT29) String() string         { return x.s }
func (x *vfT29) Error() string          { return x.e }
func (x *vfT29) Height() int            { return x.h }
func (x *vfT29) TerminalCellWidth() int { return x.w }

type vfT30 struct {
	s, g, e string
	h, w    int
}

func (x *vfT30) GoString() string       { return x.g }
func (x *vfT30) Error() string          { return x.e }
func (x *vfT30) Height() int            { return x.h }
func (x *vfT30) TerminalCellWidth() int { return x.w }

type vfT31 struct {
	s, g, e string
	h, w    int
}

func (x *vfT31) String() string         { return x.s }
func (x *vfT31) GoString() string       { return x.g }
func (x *vfT31) Error() string          { return x.e }
func (x *vfT31) Height() int            { return x.h }
func (x *vfT31) TerminalCellWidth() int { return x.w }

// vfMake returns an item of type number m holding the given texts, and a function that overwrites its fields.
func vfMake(m int, s, g, e string, h, w int) (interface{}, func(s, g, e string)) {
	switch m {
	case 0:
		x := &vfT00{s, g, e, h, w}
		return x, func(s, g, e string) { x.s, x.g, x.e = s, g, e }
	case 1:
		x := &vfT01{s, g, e, h, w}
		return x, func(s, g, e string) { x.s, x.g, x.e = s, g, e }
	case 2:
		x := &vfT02{s, g, e, h, w}
		return x, func(s, g, e string) { x.s, x.g, x.e = s, g, e }
	case 3:
		x := &vfT03{s, g, e, h, w}
		return x, func(s, g, e string) { x.s, x.g, x.e = s, g, e }
	case 4:
		x := &vfT04{s, g, e, h, w}
		return x, func(s, g, e string) { x.s, x.g, x.e = s, g, e }
	case 5:
		x := &vfT05{s, g, e, h, w}
		return x, func(s, g, e string) { x.s, x.g, x.e = s, g, e }
	case 6:
		x := &vfT06{s, g, e, h, w}
		return x, func(s, g, e string) { x.s, x.g, x.e = s, g, e }
	case 7:
		x := &vfT07{s, g, e, h, w}
		return x, func(s, g, e string) { x.s, x.g, x.e = s, g, e }
	case 8:
		x := &vfT08{s, g, e, h, w}
		return x, func(s, g, e string) { x.s, x.g, x.e = s, g, e }
	case 9:
		x := &vfT09{s, g, e, h, w}
		return x, func(s, g, e string) { x.s, x.g, x.e = s, g, e }
	case 10:
		x := &vfT10{s, g, e, h, w}
		return x, func(s, g, e string) { x.s, x.g, x.e = s, g, e }
	case 11:
		x := &vfT11{s, g, e, h, w}
		return x, func(s, g, e string) { x.s, x.g, x.e = s, g, e }
	case 12:
		x := &vfT12{s, g, e, h, w}
		return x, func(s, g, e string) { x.s, x.g, x.e = s, g, e }
	case 13:
		x := &vfT13{s, g, e, h, w}
		return x, func(s, g, e string) { x.s, x.g, x.e = s, g, e }
	case 14:
		x := &vfT14{s, g, e, h, w}
		return x, func(s, g, e string) { x.s, x.g, x.e = s, g, e }
	case 15:
		x := &vfT15{s, g, e, h, w}
		return x, func(s, g, e string) { x.s, x.g, x.e = s, g, e }
	case 16:
		x := &vfT16{s, g, e, h, w}
		return x, func(s, g, e string) { x.s, x.g, x.e = s, g, e }
	case 17:
		x := &vfT17{s, g, e, h, w}
		return x, func(s, g, e string) { x.s, x.g, x.e = s, g, e }
	case 18:
		x := &vfT18{s, g, e, h, w}
		return x, func(s, g, e string) { x.s, x.g, x.e = s, g, e }
	case 19:
		x := &vfT19{s, g, e, h, w}
		return x, func(s, g, e string) { x.s, x.g, x.e = s, g, e }
	case 20:
		x := &vfT20{s, g, e, h, w}
		return x, func(s, g, e string) { x.s, x.g, x.e = s, g, e }
	case 21:
		x := &vfT21{s, g, e, h, w}
		return x, func(s, g, e string) { x.s, x.g, x.e = s, g, e }
	case 22:
		x := &vfT22{s, g, e, h, w}
		return x, func(s, g, e string) { x.s, x.g, x.e = s, g, e }
	case 23:
		x := &vfT23{s, g, e, h, w}
		return x, func(s, g, e string) { x.s, x.g, x.e = s, g, e }
	case 24:
		x := &vfT24{s, g, e, h, w}
		return x, func(s, g, e string) { x.s, x.g, x.e = s, g, e }
	case 25:
		x := &vfT25{s, g, e, h, w}
		return x, func(s, g, e string) { x.s, x.g, x.e = s, g, e }
	case 26:
		x := &vfT26{s, g, e, h, w}
		return x, func(s, g, e string) { x.s, x.g, x.e = s, g, e }
	case 27:
		x := &vfT27{s, g, e, h, w}
		return x, func(s, g, e string) { x.s, x.g, x.e = s, g, e }
	case 28:
		x := &vfT28{s, g, e, h, w}
		return x, func(s, g, e string) { x.s, x.g, x.e = s, g, e }
	case 29:
		x := &vfT29{s, g, e, h, w}
		return x, func(s, g, e string) { x.s, x.g, x.e = s, g, e }
	case 30:
		x := &vfT30{s, g, e, h, w}
		return x, func(s, g, e string) { x.s, x.g, x.e = s, g, e }
	case 31:
		x := &vfT31{s, g, e, h, w}
		return x, func(s, g, e string) { x.s, x.g, x.e = s, g, e }
	}
	return nil, nil
}
