package texttable

import (
	"go.pennock.tech/tabular/texttable/decoration"
)

// VerifC14_decorations: one text wrapper re-used under a sequence of decoration settings (by name or
// by value, in any order): every render shows the decoration set last, exactly as a fresh wrapper with
// only that setting does.
func VerifC14_decorations() {
	t := New()
	t.AddHeaders("h1", "h2")
	t.AddRowItems(vfString("a", 1, vfTXT), "x")
	t.AddSeparator()
	t.AddRowItems("y")
	n := 2 + vfTier()
	steps := 1 + vfChoice("steps", n)
	for s := 0; s < steps; s++ {
		k := vfChoice(vfName("set", s), 4)
		fresh := Wrap(t.Table)
		switch k {
		case 0:
			_, e1 := t.SetDecorationNamed(decoration.D_ASCII_SIMPLE)
			_, e2 := fresh.SetDecorationNamed(decoration.D_ASCII_SIMPLE)
			vfAssert(vfAnd(e1 == nil, e2 == nil), "registered-decoration-accepted")
		case 1:
			_, e1 := t.SetDecorationNamed(decoration.D_UTF8_LIGHT)
			_, e2 := fresh.SetDecorationNamed(decoration.D_UTF8_LIGHT)
			vfAssert(vfAnd(e1 == nil, e2 == nil), "registered-decoration-accepted")
		case 2:
			t.SetDecoration(decoration.UTF8BoxHeavy())
			fresh.SetDecoration(decoration.UTF8BoxHeavy())
		case 3:
			d := decoration.ASCIIBoxSimple()
			d.CrossPiece = "*"
			t.SetDecoration(d)
			fresh.SetDecoration(d)
		}
		if s == steps-1 || vfChoice(vfName("render", s), 2) == 1 {
			out, err := t.Render()
			want, werr := fresh.Render()
			vfAssert(vfAnd(err == nil, werr == nil), "render-ok")
			vfAssert(out == want, "render-shows-the-decoration-set-last")
			vfObserveStr(vfName("out", s), out)
		}
	}
}
