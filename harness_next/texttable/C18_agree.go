package texttable

import "go.pennock.tech/tabular"

// VerifC18_agree: for cells that do not override their size, the measurements the layout pass uses
// (cell width, height) and the per-line widths the emit pass pads by agree: the cell width is the
// maximum per-line width and the number of measured lines is the height.
func VerifC18_agree() {
	n := 4
	if vfTier() == 1 {
		n = 6
	}
	s := ""
	k := vfChoice("n", n+1)
	for i := 0; i < k; i++ {
		switch vfChoice(vfName("a", i), 6) {
		case 0:
			s += string([]byte{vfByte(vfName("b", i), vfASCII)})
		case 1:
			s += "\n"
		case 2:
			s += "世"
		case 3:
			s += "́"
		case 4:
			s += "​"
		case 5:
			s += "\r"
		}
	}
	t := New()
	t.AddRowItems(s, "other")
	t.InvokeRenderCallbacks()
	c, _ := t.CellAt(tabular.CellLocation{Row: 1, Column: 1})
	d := CellPropertyExtractDimensions(c)
	lw := CellPropertyExtractLinesWidths(c)
	vfAssert(len(lw) == d.height, "measured-lines-equal-height")
	maxW := 0
	for i := range lw {
		maxW = vfIteInt(lw[i].W > maxW, lw[i].W, maxW)
	}
	vfAssert(d.cellWidth == maxW, "layout-width-is-max-of-emit-line-widths")
	vfAssert(d.cellWidth == c.TerminalCellWidth(), "layout-width-is-cell-width")
	vfAssert(d.height == c.Height(), "layout-height-is-cell-height")
	vfObserveInt("w", d.cellWidth)
	vfObserveInt("h", d.height)
}
