#!/bin/bash
# usage: tools/mutant.sh <patch.diff> <ID> [tier] -- apply a patch to a scratch worktree of /repo,
# confirm the repo's own tests still pass, run the check against it, clean up.
set -u
patch=$(readlink -f "$1"); id=$2; tier=${3:-quick}
export GOFLAGS=-mod=mod GOPROXY=off GOSUMDB=off GOTOOLCHAIN=local
d=$(mktemp -d /tmp/mut.XXXXXX)
git -C /repo worktree add --detach -f "$d" HEAD >/dev/null 2>&1 || { echo "worktree failed"; exit 2; }
trap 'git -C /repo worktree remove --force "$d" >/dev/null 2>&1; rm -rf "$d" /tmp/mut-ev.$$' EXIT
if ! git -C "$d" apply "$patch"; then echo "PATCH-DOES-NOT-APPLY"; exit 2; fi
if (cd "$d" && go build ./... && go test -vet=off -count=1 ./... >/tmp/mut-test.$$ 2>&1); then echo "suite: pass"; else echo "suite: FAIL"; tail -5 /tmp/mut-test.$$; fi
rm -f /tmp/mut-test.$$
mkdir -p /tmp/mut-ev.$$
/verif/bin/gosym check "$id" --tier "$tier" --repo "$d" --evidence /tmp/mut-ev.$$ 2>&1 | grep -E "^VIOLATION|^KNOWN|ENGINE|^gosym: C|key=" | cut -c1-330
echo "exit=${PIPESTATUS[0]}"
