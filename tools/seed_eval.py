#!/usr/bin/env python3
"""seed_eval.py <PID> <X> [--tier quick|thorough] [--checks C01,C09]
Confirms a seeded change produced by a sub-agent (/tmp/seed/<PID>/SEED/<X>) in a scratch worktree of /repo:
 suite passes with the patch, the demonstration fails with it and passes without it; then runs the
 registered check(s) against the patched tree and records everything under /verif/seeded/<PID>-<X>/."""
import json, os, re, shutil, subprocess, sys, tempfile, time
env=dict(os.environ, GOFLAGS='-mod=mod', GOPROXY='off', GOSUMDB='off', GOTOOLCHAIN='local')
pid, x = sys.argv[1], sys.argv[2]
tier='quick'; checks=[pid]; src=None
for i,a in enumerate(sys.argv):
    if a=='--tier': tier=sys.argv[i+1]
    if a=='--checks': checks=sys.argv[i+1].split(',')
    if a=='--src': src=sys.argv[i+1]
src=src or f'/tmp/seed/{pid}/SEED/{x}'
dst=f'/verif/seeded/{pid}-{x}'
pkgdirs={'tabular':'.','csv':'csv','json':'json','html':'html','markdown':'markdown','texttable':'texttable','decoration':'texttable/decoration','auto':'auto','length':'length','align':'properties/align','properties':'properties','examples':'examples'}
def run(cmd, cwd, timeout=1800):
    p=subprocess.run(cmd, cwd=cwd, env=env, shell=True, capture_output=True, text=True, timeout=timeout)
    return p.returncode, p.stdout+p.stderr
demos=[f for f in os.listdir(src) if f.endswith('_test.go')]
assert demos, 'no demo test'
patch=os.path.join(src,'patch.diff')
wt=tempfile.mkdtemp(prefix='seedwt.', dir='/tmp')
subprocess.run(f'git -C /repo worktree add --detach -f {wt} HEAD', shell=True, capture_output=True)
meta={'property':pid,'seed':x,'ran':[]}
try:
    # where do demos go
    placed=[]
    for d in demos:
        txt=open(os.path.join(src,d)).read()
        m=re.search(r'^package\s+(\w+)', txt, re.M)
        pk=m.group(1)
        base=pk[:-5] if pk.endswith('_test') else pk
        sub=pkgdirs.get(base)
        notes=open(os.path.join(src,'notes.md')).read() if os.path.exists(os.path.join(src,'notes.md')) else ''
        assert sub is not None, f'unknown package {pk}'
        placed.append((d,sub))
    def put_demos():
        for d,sub in placed:
            shutil.copy(os.path.join(src,d), os.path.join(wt,sub,'zz_seed_'+d))
    def rm_demos():
        for d,sub in placed:
            os.remove(os.path.join(wt,sub,'zz_seed_'+d))
    race='-race' if ('-race' in open(os.path.join(src,'notes.md')).read()) else ''
    def run_demos():
        rc_all=0; out_all=''
        for sub in sorted(set(s for _,s in placed)):
            rc,out=run(f'go test -vet=off -count=1 {race} ./{sub}', wt)
            rc_all|=rc; out_all+=out
        return rc_all,out_all
    # 1. demo passes on clean tree
    put_demos(); rc,out=run_demos(); rm_demos()
    meta['demo_passes_clean']=(rc==0); meta['ran'].append('clean tree: go test (demo) -> %s'%('pass' if rc==0 else 'FAIL'))
    if rc!=0: meta['clean_demo_output']=out[-1500:]
    # 2. apply patch; suite passes
    rc,out=run(f'git apply {patch}', wt)
    assert rc==0, 'patch does not apply: '+out
    rc,out=run('go build ./... && go test -vet=off -count=1 ./...', wt)
    meta['suite_passes_with_patch']=(rc==0); meta['ran'].append('patched tree: go build ./... && go test ./... -> %s'%('pass' if rc==0 else 'FAIL'))
    # 3. demo fails with patch
    put_demos(); rc,out=run_demos(); rm_demos()
    if race and rc==0:
        # races may need several runs
        put_demos()
        for _ in range(5):
            rc,out=run_demos()
            if rc!=0: break
        rm_demos()
    meta['demo_fails_with_patch']=(rc!=0); meta['ran'].append('patched tree: go test (demo) -> %s'%('FAIL (as intended)' if rc!=0 else 'pass'))
    meta['demo_failure_excerpt']=out[-800:] if rc!=0 else ''
    # 4. our checks
    meta['checks']={}
    for c in checks:
        evd=tempfile.mkdtemp(prefix='seedev.', dir='/tmp')
        t0=time.time()
        rc,out=run(f'/verif/bin/gosym check {c} --tier {tier} --repo {wt} --evidence {evd}', '/verif', timeout=7200)
        shutil.rmtree(evd, ignore_errors=True)
        lines=[l for l in out.splitlines() if l.startswith('VIOLATION') or l.startswith('KNOWN') or 'key=' in l or l.startswith('ENGINE') or l.startswith('gosym: C')]
        meta['checks'][c]={'tier':tier,'exit':rc,'caught':rc==1,'wall_s':round(time.time()-t0,1),'lines':[l[:300] for l in lines[:12]]}
        meta['ran'].append(f'/verif/bin/gosym check {c} --tier {tier} --repo <patched worktree> -> exit {rc}')
finally:
    subprocess.run(f'git -C /repo worktree remove --force {wt}', shell=True, capture_output=True)
    shutil.rmtree(wt, ignore_errors=True)
ok = meta.get('demo_passes_clean') and meta.get('suite_passes_with_patch') and meta.get('demo_fails_with_patch')
meta['confirmed']=bool(ok)
notes=open(os.path.join(src,'notes.md')).read() if os.path.exists(os.path.join(src,'notes.md')) else ''
meta['needs_to_manifest']=notes[:1500]
if ok:
    os.makedirs(dst, exist_ok=True)
    if os.path.realpath(src) != os.path.realpath(dst):
        shutil.copy(patch, os.path.join(dst,'patch.diff'))
        for d in demos: shutil.copy(os.path.join(src,d), os.path.join(dst,d))
        if notes: open(os.path.join(dst,'notes.md'),'w').write(notes)
    # merge with earlier meta (other tiers/checks)
    mp=os.path.join(dst,'meta.json')
    if os.path.exists(mp):
        old=json.load(open(mp))
        for k,v in old.get('checks',{}).items():
            if k not in meta['checks'] or (not meta['checks'][k]['caught'] and v.get('caught')):
                meta['checks'].setdefault(k+'@'+v.get('tier','?'), v)
    json.dump(meta, open(mp,'w'), indent=1)
print(json.dumps({k:meta[k] for k in ['property','seed','confirmed','demo_passes_clean','suite_passes_with_patch','demo_fails_with_patch']}))
for c,v in meta.get('checks',{}).items():
    print(' check',c,v['tier'],'caught' if v['caught'] else 'MISSED','exit',v['exit'],v['wall_s'],'s')
    for l in v['lines'][:6]: print('   ',l[:220])
