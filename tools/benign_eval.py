#!/usr/bin/env python3
"""benign_eval.py <PID> <X>: apply a behaviour-preserving refactoring (from /tmp/benign/<PID>/BENIGN/<X>) in a
scratch worktree, confirm the suite passes, run the checks relevant to the touched files and report
any VIOLATION (= false alarm) or engine problem (exit 3 = inconclusive, acceptable)."""
import json, os, re, shutil, subprocess, sys, tempfile, time
env=dict(os.environ, GOFLAGS='-mod=mod', GOPROXY='off', GOSUMDB='off', GOTOOLCHAIN='local')
pid,x=sys.argv[1],sys.argv[2]
src=f'/tmp/benign/{pid}/BENIGN/{x}'
for i,a in enumerate(sys.argv):
    if a=='--src': src=sys.argv[i+1]
dst=f'/verif/benign/{pid}-{x}'
patch=os.path.join(src,'patch.diff')
txt=open(patch).read()
files=re.findall(r'^\+\+\+ b/(\S+)',txt,re.M)
rel={pid}
for f in files:
    if f.startswith('csv/'): rel|={'C05','C15','C09'}
    elif f.startswith('json/'): rel|={'C07','C15','C09'}
    elif f.startswith('markdown/'): rel|={'C08','C10','C15'}
    elif f.startswith('html/'): rel|={'C06','C15'}
    elif f.startswith('auto/'): rel|={'C19','C10'}
    elif f.startswith('texttable/decoration/'): rel|={'C17','C03','C04'}
    elif f.startswith('texttable/'): rel|={'C03','C04','C10','C14'}
    elif f.startswith('length/'): rel|={'C18','C03'}
    elif f.startswith('properties'): rel|={'C07','C08','C04'}
    else: rel|={'C01','C02','C11','C12','C13','C09'}
rel=sorted(rel)
def run(cmd,cwd,timeout=3600):
    p=subprocess.run(cmd,cwd=cwd,env=env,shell=True,capture_output=True,text=True,timeout=timeout)
    return p.returncode,p.stdout+p.stderr
wt=tempfile.mkdtemp(prefix='benwt.',dir='/tmp')
subprocess.run(f'git -C /repo worktree add --detach -f {wt} HEAD',shell=True,capture_output=True)
meta={'property':pid,'refactoring':x,'files':files,'checks':{}}
try:
    rc,out=run(f'git apply {patch}',wt)
    assert rc==0,'patch does not apply: '+out
    rc,out=run('go build ./... && go test -vet=off -count=1 ./...',wt)
    meta['suite_passes']=(rc==0)
    for c in rel:
        evd=tempfile.mkdtemp(prefix='benev.',dir='/tmp')
        t0=time.time()
        rc,out=run(f'/verif/bin/gosym check {c} --repo {wt} --evidence {evd}','/verif',timeout=7200)
        shutil.rmtree(evd,ignore_errors=True)
        lines=[l[:300] for l in out.splitlines() if l.startswith('VIOLATION') or 'key=' in l or l.startswith('ENGINE') or l.startswith('gosym: C')]
        meta['checks'][c]={'exit':rc,'wall_s':round(time.time()-t0,1),'lines':lines[:8]}
finally:
    subprocess.run(f'git -C /repo worktree remove --force {wt}',shell=True,capture_output=True)
    shutil.rmtree(wt,ignore_errors=True)
os.makedirs(dst,exist_ok=True)
if os.path.realpath(src)!=os.path.realpath(dst):
    shutil.copy(patch,os.path.join(dst,'patch.diff'))
    if os.path.exists(os.path.join(src,'notes.md')): shutil.copy(os.path.join(src,'notes.md'),os.path.join(dst,'notes.md'))
json.dump(meta,open(os.path.join(dst,'meta.json'),'w'),indent=1)
print(pid,x,'suite',meta.get('suite_passes'),' '.join(f"{c}:{v['exit']}" for c,v in meta['checks'].items()))
for c,v in meta['checks'].items():
    if v['exit']!=0:
        for l in v['lines'][:4]: print('   ',c,l[:260])
