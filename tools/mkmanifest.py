#!/usr/bin/env python3
# Regenerates /verif/MANIFEST.json from tools/claims.json (claimed checks) and properties.jsonl.
import json,sys
ids=[json.loads(l)['id'] for l in open('/verif/properties.jsonl')]
claims=json.load(open('/verif/tools/claims.json'))
checks=[]
for i in ids:
    c=claims.get(i)
    if not c or c.get('not_applicable'): continue
    checks.append({
      "property_id":i,
      "quick_cmd":f"/verif/bin/gosym check {i} --tier quick",
      "thorough_cmd":f"/verif/bin/gosym check {i} --tier thorough",
      "evidence_file":f"/verif/evidence/{i}.json",
      "replay_cmd_template":"/verif/bin/gosym replay {path}",
      "engine":"gosym",
      "level_claimed":{"category":"model_checking","text":c['text'],"design_ref":c.get('design_ref','DESIGN.md §3')},
      "level_note":c['note'],
      "technique":c.get('technique',"bounded symbolic execution of the real Go SSA (go/ssa) with SMT (z3 QF_BV) deciding every branch feasibility and assertion; counterexamples replayed natively"),
    })
na=[{"property_id":i,"reason":(claims.get(i) or {}).get('not_applicable') or "check not built yet (work in progress)"} for i in ids if not claims.get(i) or claims[i].get('not_applicable')]
m={"version":1,
"setup_cmd":"cd /verif/engine && GOFLAGS=-mod=mod GOPROXY=off GOSUMDB=off GOTOOLCHAIN=local go build -o /verif/bin/gosym .",
"hooks":{"guard":"verif","enable":"no file is added to /repo: harness files under /verif/harness are injected into the package under test by go/packages Overlay (symbolic engine) and go test -overlay (native replay)","baseline_off_cmd":"cd /repo && GOFLAGS=-mod=mod go test -vet=off -count=1 ./...","source_commits":[],"add_only":True},
"engines":[{"name":"gosym","path":"/verif/engine","serves_properties":[c['property_id'] for c in checks],"kind_free_text":"bounded, path-forking symbolic executor for Go SSA (go/packages+go/ssa, regenerated from /repo's working tree on every run) with z3 over QF_BV; counterexamples and sampled path models are replayed natively with go test -overlay"}],
"checks":checks,
"not_applicable":na,
"notes":"Exit codes: 0 held (or only listed known findings), 1 reproduced unlisted violation (VIOLATION line), 3 engine problem (unsupported construct, solver unknown, bound exceeded, vacuity, replay mismatch) - never reported as a pass. Known findings: /verif/known_findings.txt."}
json.dump(m,open('/verif/MANIFEST.json','w'),indent=1)
print(len(checks),'checks,',len(na),'not applicable')
