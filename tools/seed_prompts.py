#!/usr/bin/env python3
"""seed_prompts.py <round-dir> <X> <Y>: create scratch worktrees <round-dir>/C01..C19 and one prompt per
property (<round-dir>/<PID>.agent.txt) asking an independent sub-agent for two property-breaking changes
named X and Y. The prompt contains the property text and the changes already tried, nothing from /verif."""
import json,os,subprocess,sys,glob
rd,X,Y=sys.argv[1],sys.argv[2],sys.argv[3]
os.makedirs(rd,exist_ok=True)
T='''You are helping evaluate a verification effort by producing a realistic, subtle defect ("seeded change") in a small Go library, PennockTech/tabular (module go.pennock.tech/tabular). You work ONLY inside your own scratch git worktree of the repository at @@WT@@ (a checkout of the current head). Do not read or touch /verif, /repo, or any other worktree under /tmp; work only in @@WT@@. The sandbox has no network; use `export GOFLAGS=-mod=mod GOPROXY=off GOSUMDB=off GOTOOLCHAIN=local` before go commands. Run the suite with `go test -vet=off -count=1 ./...` from @@WT@@.

The semantic property that your change must break:

@@PROP@@

Your job: produce TWO different, independent changes to the library's non-test source code (call them X_ and Y_), each of which
 (1) still compiles, and the existing test suite (all *_test.go files, unedited) still passes with it;
 (2) breaks the property above - i.e. there is an input / sequence of calls / schedule / fault for which the property no longer holds;
 (3) needs something specific to manifest: an unusual input, a particular multi-step sequence of operations, a fault at a particular point, a particular interleaving, or two cooperating code sites that each look fine alone - NOT something any ordinary use would expose at once (a change that breaks the common case is useless: the existing golden tests would catch it anyway);
 (4) looks like a plausible refactoring/optimisation/bug a maintainer could really introduce (off-by-one at a boundary, a cache, a fast path, a reordered check, an early return, a changed default, state kept in the wrong place ...), and is small (a few lines to a few dozen).
Make X_ and Y_ differ in kind (different code site or different mechanism). Be inventive: prefer mechanisms nobody has used yet for this property (see the list below) - e.g. an interaction between two features that are each fine alone, a boundary of a size/count/length (the third of something, the 17th byte, a width of exactly N), a dependence on the order of two API calls, state that survives in an object that is reused, an input class nobody thinks of (empty, very long, unusual bytes, multi-byte or zero-width or double-width characters, already-wrapped values), a wrong but plausible use of a standard-library function, a change in a file far away from the obvious one. Read the property's statement and its 'Quantified over' line clause by clause against the list below: if some clause or some dimension of the quantifier (an input class, a configuration, an order of operations, a kind of owner/format/decoration) has not been attacked yet, attack that one. Do NOT use `git stash` (the stash is shared between worktrees); use `git diff > file` and `git checkout -- .` instead.

Other people have already produced the following changes for this property; do NOT repeat them or trivial variants of them:
@@TRIED@@

For each change X in {X_,Y_} deliver, inside @@WT@@/SEED/X/ :
 - patch.diff : output of `git diff` for the change alone, relative to the worktree's HEAD (so that `git apply patch.diff` on a clean checkout reproduces it). Only non-test library source files may be changed.
 - a demonstration: an external Go test file demo_test.go (package name `<pkg>_test` or the package itself) plus a line in notes.md saying into which package directory it must be copied; the test must FAIL with the change applied and PASS on the clean checkout. Keep it self-contained (standard library + the tabular packages only; github.com/liquidgecka/testlib is available but not required).
 - notes.md : which part of the property is broken, what exactly is needed for it to manifest (the specific input/sequence/schedule), and the exact commands you ran to confirm: suite passes with the change; demo fails with the change; demo passes without it.
Procedure suggestion: make change X_, verify, save `git diff > SEED/X_/patch.diff`, then `git checkout -- .` (keep the SEED directory, it is untracked), verify the demo passes on the clean tree, then do Y_ the same way. Leave the worktree clean (no modified tracked files) when you finish; only the untracked SEED directory remains.
Place a file SEED/go.mod containing "module seeddemo" so that `go test ./...` from the repository root does not pick up the demo files.

Finish with a short report: for X_ and Y_ one line each describing the change and its trigger.
'''
for l in open('/verif/properties.jsonl'):
    p=json.loads(l); pid=p['id']
    txt=f"""Property {pid}: {p['title']}

Statement: {p['statement']}

Quantified over: {p['quantifier']['text']}

Why tests cannot settle it: {p['why_tests_cant']}

Code anchors: files {p['anchors']['files']}; mechanisms: """+"; ".join(f"{m['name']} ({m['where']})" for m in p['anchors']['mechanism'])
    wt=f'{rd}/{pid}'
    if not os.path.isdir(wt):
        subprocess.run(f'git -C /repo worktree add --detach -f {wt} HEAD',shell=True,capture_output=True)
    tried=[]
    for d in sorted(glob.glob(f'/verif/seeded/{pid}-*')):
        f=d+'/notes.md'
        if os.path.exists(f):
            n=open(f).read().strip().splitlines()
            tried.append(f'- ({d[-1]}) '+' '.join(x.strip() for x in n[:8])[:380])
    open(f'{rd}/{pid}.agent.txt','w').write(T.replace('X_',X).replace('Y_',Y).replace('@@WT@@',wt).replace('@@PROP@@',txt).replace('@@TRIED@@','\n'.join(tried)))
print('ok')
