#!/bin/bash
# try_seed.sh <seed-dir-name> <check> [extra gosym args]: apply /verif/seeded/<name>/patch.diff in a scratch worktree and run one check
name=$1; chk=$2; shift 2
d=$(mktemp -d /tmp/w.XXXX)
git -C /repo worktree add --detach -f $d HEAD >/dev/null 2>&1
git -C $d apply /verif/seeded/$name/patch.diff || { echo "patch failed"; git -C /repo worktree remove --force $d; exit 2; }
e=$(mktemp -d /tmp/ev.XXXX)
/verif/bin/gosym check $chk --repo $d --evidence $e "$@" 2>&1 | grep -v "^  \|^$" | cut -c1-400 | head -30
rm -rf $e
git -C /repo worktree remove --force $d
