#!/bin/bash
# evaluate every round-2 seed that has not been evaluated yet
for d in /tmp/seed2/C*/SEED/[CD]; do
  pid=$(echo $d | cut -d/ -f4); x=$(basename $d)
  [ -f $d/patch.diff ] || continue
  [ -f /verif/seeded/$pid-$x/meta.json ] && continue
  python3 /verif/tools/seed_eval.py $pid $x --src $d "$@" 2>&1 | grep -v "^    " | tr '\n' ' ' | cut -c1-330; echo
done
