#!/bin/bash
# re-evaluate every seeded change in /verif/seeded against the check(s) recorded in its meta.json (quick tier)
cd /verif
for d in seeded/C*-[A-Z]; do
  n=$(basename $d); pid=${n%-*}; x=${n#*-}
  [ -n "$1" ] && [[ ! "$n" =~ $1 ]] && continue
  checks=$(python3 -c "import json;print(','.join(json.load(open('$d/meta.json'))['checks'].keys()))")
  python3 tools/seed_eval.py $pid $x --src /verif/$d --checks $checks 2>&1 | grep -v "^    " | tr '\n' ' ' | cut -c1-40,100-330; echo
done
python3 tools/seed_summary.py | tail -3
