#!/bin/bash
# run every thorough tier sequentially against /repo; logs under /verif/.thorough_logs (not committed)
cd /verif
mkdir -p .thorough_logs
for c in ${@:-C01 C02 C03 C04 C05 C06 C07 C08 C09 C10 C11 C12 C13 C14 C15 C16 C17 C18 C19}; do
  s=$(date +%s)
  timeout 3h ./bin/gosym check $c --tier thorough > .thorough_logs/$c.log 2>&1
  rc=$?
  echo "$c exit=$rc wall=$(( $(date +%s)-s ))s $(grep '^gosym: C' .thorough_logs/$c.log | cut -c1-220)"
done
