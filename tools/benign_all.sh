#!/bin/bash
# evaluate every refactoring under $1/C*/BENIGN/[A-Z] (false-alarm experiment)
base=$1
for d in $base/C*/BENIGN/[A-Z]; do
  pid=$(echo $d | awk -F/ '{print $(NF-2)}'); x=$(basename $d)
  [ -f $d/patch.diff ] || continue
  python3 /verif/tools/benign_eval.py $pid $x --src $d 2>&1
done
