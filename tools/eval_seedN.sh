#!/bin/bash
# evaluate every seed under /tmp/seed$1 that has not been evaluated yet
base=/tmp/seed$1; shift
for d in $base/C*/SEED/[A-Z]; do
  pid=$(echo $d | cut -d/ -f4); x=$(basename $d)
  [ -f $d/patch.diff ] || continue
  [ -f /verif/seeded/$pid-$x/meta.json ] && continue
  python3 /verif/tools/seed_eval.py $pid $x --src $d "$@" 2>&1 | grep -v "^    " | tr '\n' ' ' | cut -c1-40,100-300; echo
done
