#!/usr/bin/env python3
"""benign_prompts.py <round-dir> X Y: worktrees <round-dir>/C01..C19 and prompts asking an independent
sub-agent for two behaviour-preserving refactorings (named X and Y) per property; nothing from /verif."""
import json,os,subprocess,sys,glob
rd,X,Y=sys.argv[1],sys.argv[2],sys.argv[3]
os.makedirs(rd,exist_ok=True)
for l in open('/verif/properties.jsonl'):
    p=json.loads(l); pid=p['id']
    prop=f"""Property {pid}: {p['title']}

Statement: {p['statement']}

Quantified over: {p['quantifier']['text']}

Code anchors: files {p['anchors']['files']}; mechanisms: """+"; ".join(f"{m['name']} ({m['where']})" for m in p['anchors']['mechanism'])
    wt=f'{rd}/{pid}'
    if not os.path.isdir(wt):
        subprocess.run(f'git -C /repo worktree add --detach -f {wt} HEAD',shell=True,capture_output=True)
    tried=[]
    for d in sorted(glob.glob(f'/verif/benign/{pid}-*')):
        f=d+'/notes.md'
        if os.path.exists(f):
            n=open(f).read().strip().splitlines()
            tried.append(f'- ({d[-1]}) '+' '.join(x.strip() for x in n[:6])[:300])
    t=f'''You are helping evaluate a verification effort for a small Go library, PennockTech/tabular (module go.pennock.tech/tabular). You work ONLY inside your own scratch git worktree of the repository at {wt} (a checkout of the current head). Do not read or touch /verif, /repo, or any other directory under /tmp; work only in {wt}. The sandbox has no network; use `export GOFLAGS=-mod=mod GOPROXY=off GOSUMDB=off GOTOOLCHAIN=local` before go commands. Run the suite with `go test -vet=off -count=1 ./...`. Do NOT use `git stash` (shared between worktrees); use `git diff > file` and `git checkout -- .`.

The semantic property in question:

{prop}

Your job: produce TWO different, independent BEHAVIOUR-PRESERVING changes to the library's non-test source code (call them {X} and {Y}) in the code this property depends on (directly or indirectly): realistic refactorings or optimisations a maintainer might make - e.g. rewriting a loop, replacing one standard-library call by another with the same result, a strings.Builder or a pre-sized buffer, extracting or inlining a helper, changing a private data structure (a slice for a map, a struct for two parallel slices), a CORRECT cache or fast path, reordering independent statements, moving work between a constructor and first use, defer instead of explicit unlock, early returns. The property above (and the library's observable behaviour in general: outputs byte for byte, error values and their order, panics, callback order and the objects handed to callbacks, what every public accessor reports, concurrency safety) must be exactly preserved for ALL inputs and ALL usage patterns, including the unusual ones: empty tables, zero-cell rows, separators anywhere, invalid UTF-8, control characters, huge or negative declared sizes, wrapper objects rendered several times with changes in between, rows added to two tables, cells copied by value, items mutated and updated, failing writers, registering decorations at run time, concurrent use of distinct tables, a process in which other tables were built or rendered before. Be careful: a refactoring that changes behaviour in some corner is NOT wanted here. Make the changes non-trivial (not just renaming or comments): each should change the control flow, the data layout or the library calls used, 10-60 lines, and they should differ in kind.

Earlier refactorings already produced for this property (do NOT repeat them):
{chr(10).join(tried)}

For each change Z in {{{X},{Y}}} deliver inside {wt}/BENIGN/Z/ :
 - patch.diff : `git diff` of the change alone relative to HEAD (must apply with `git apply` on a clean checkout; only non-test library source files changed);
 - notes.md : what was changed and a short argument why behaviour is preserved for all inputs and usage patterns, including the corner cases listed above; the commands you ran (the suite must pass with the change).
Also place a file {wt}/BENIGN/go.mod containing "module benigndemo". Leave the worktree clean (no modified tracked files) when done. Finish with a two-line report.
'''
    open(f'{rd}/{pid}.agent.txt','w').write(t)
print('ok')
