#!/usr/bin/env python3
# Regenerates /verif/seeded/SUMMARY.md from the meta.json files.
import json, os, glob
rows=[]
for d in sorted(glob.glob('/verif/seeded/*/meta.json')):
    m=json.load(open(d))
    name=os.path.basename(os.path.dirname(d))
    caught=[k for k,v in m.get('checks',{}).items() if v.get('caught')]
    missed=[k for k,v in m.get('checks',{}).items() if not v.get('caught')]
    first=m.get('needs_to_manifest','').strip().splitlines()
    what=' '.join(first[:3])[:160].replace('|','/')
    rows.append((name,m.get('confirmed'),', '.join(caught) or '-', ', '.join(x for x in missed if x.split('@')[0] not in [c.split('@')[0] for c in caught]) or '-', what))
out=['# Seeded changes (produced by independent sub-agents from the property text only)','',
 'Each change compiles, passes the 43 existing tests, and comes with a demonstration that fails with it and passes without it (confirmed by tools/seed_eval.py in a scratch worktree).','',
 '| seed | confirmed | caught by (check) | not caught by | notes (first lines of the author\'s description) |','|---|---|---|---|---|']
for r in rows: out.append('| %s | %s | %s | %s | %s |'%r)
n=len(rows); c=sum(1 for r in rows if r[2]!='-')
out+=['',f'{c} of {n} seeded changes are caught by at least one registered check (quick tier unless noted in meta.json).']
open('/verif/seeded/SUMMARY.md','w').write('\n'.join(out)+'\n')
print(c,'/',n)
