package length

import "strings"

// vfUniString builds a string of up to n atoms; each atom is an arbitrary ASCII byte (symbolic) or
// one of: LF, é (1 cell), 世 (2 cells), U+0301 combining acute (0 cells), U+200B zero width space.
func vfUniString(name string, n int) string {
	k := vfChoice(name+".n", n+1)
	s := ""
	for i := 0; i < k; i++ {
		switch vfChoice(vfName(name+".a", i), 6) {
		case 0:
			s += string([]byte{vfByte(vfName(name+".b", i), vfASCII)})
		case 1:
			s += "\n"
		case 2:
			s += "é"
		case 3:
			s += "世"
		case 4:
			s += "́"
		case 5:
			s += "​"
		}
	}
	return s
}

// vfWideLines builds a string of up to n atoms over {x, wide CJK, LF}: long enough for lines whose
// rune counts and display widths order differently.
func vfWideLines(name string, n int) string {
	k := vfChoice(name+".n", n+1)
	s := ""
	for i := 0; i < k; i++ {
		switch vfChoice(vfName(name+".a", i), 4) {
		case 0:
			s += "x"
		case 1:
			s += "世"
		case 2:
			s += "\n"
		case 3:
			s += "\U0001F4AA\u200d\U0001F4AA" // one grapheme cluster of several wide runes
		}
	}
	return s
}

func VerifC18_metrics() {
	n := 3
	if vfTier() == 1 {
		n = 5
	}
	verifC18Metrics(vfUniString("s", n))
}

func VerifC18_widelines() {
	n := 5
	if vfTier() == 1 {
		n = 7
	}
	verifC18Metrics(vfWideLines("w", n))
}

// VerifC18_asciilines: every byte is an arbitrary ASCII byte (so CR, LF, TAB and the other controls
// occur in every position and combination: "\r\n", "\n\r", a lone CR at the end of a line ...).
func VerifC18_asciilines() {
	n := 4
	if vfTier() == 1 {
		n = 5
	}
	k := vfChoice("s.n", n+1)
	b := make([]byte, k)
	for i := 0; i < k; i++ {
		b[i] = vfByte(vfName("s.b", i), vfASCII)
	}
	verifC18Metrics(string(b))
}

func verifC18Metrics(s string) {
	// the functions are pure: what was measured earlier in the process (the whole string, as one
	// line's worth of cells or runes) has no influence on later answers
	if vfChoice("measured-whole-before", 2) == 1 {
		StringCells(s)
		StringRunes(s)
		vfTag("whole-string-measured-before")
	}
	lines := Lines(s)
	joined := strings.Join(lines, "\n")
	vfAssert(vfOr(joined == s, joined+"\n" == s), "lines-lose-only-breaks-and-one-trailing-newline")
	maxB, maxR, maxC := 0, 0, 0
	for i := range lines {
		l := lines[i]
		for j := 0; j < len(l); j++ {
			vfAssert(l[j] != '\n', "no-newline-inside-a-line")
		}
		b, r, c := StringBytes(l), StringRunes(l), StringCells(l)
		vfAssert(b == len(l), "bytes-is-len")
		vfAssert(r <= b, "runes-le-bytes")
		vfAssert(c <= 2*r, "cells-le-twice-runes")
		vfAssert(c >= 0, "cells-nonnegative")
		maxB = vfIteInt(b > maxB, b, maxB)
		maxR = vfIteInt(r > maxR, r, maxR)
		maxC = vfIteInt(c > maxC, c, maxC)
	}
	vfAssert(LongestLineBytes(s) == maxB, "longest-bytes-is-max")
	vfAssert(LongestLineRunes(s) == maxR, "longest-runes-is-max")
	vfAssert(LongestLineCells(s) == maxC, "longest-cells-is-max")
	vfAssert(LongestLineCells(s) == maxC, "longest-cells-is-max") // and again
	vfObserveInt("nlines", len(lines))
	vfObserveInt("maxB", maxB)
	vfObserveInt("maxR", maxR)
	vfObserveInt("maxC", maxC)
	vfObserveInt("llb", LongestLineBytes(s))
	vfObserveInt("llr", LongestLineRunes(s))
	vfObserveInt("llc", LongestLineCells(s))
}
