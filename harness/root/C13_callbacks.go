package tabular

type vfEv struct {
	id int
	po PropertyOwner
}

type vfRecCB struct {
	id  int
	log *[]vfEv
	key *vfKeyT13
}

type vfKeyT13 struct{ n int }

func (cb *vfRecCB) UpdateProperties(po PropertyOwner) error {
	*cb.log = append(*cb.log, vfEv{cb.id, po})
	// the object handed over is the live one: a property set here must be visible through the table
	n := 0
	if old := po.GetProperty(cb.key); old != nil {
		n = old.(int)
	}
	po.SetProperty(cb.key, n+1)
	return nil
}

type vfReg struct {
	ownerKind int // 0 table, 1 column 0, 2 column 1, 3 row, 4 cell
	owner     PropertyOwner
	when      int
	target    int
	ok        bool
	cb        *vfRecCB
}

// class of callback list a registration lands in, per the documented matrix; -1: unsupported
const (
	vfTableItself = iota
	vfTableCell
	vfTableRow
	vfColItself
	vfColCell
	vfRowItself
	vfRowCell
	vfCellOwn
)

func vfClass(ownerKind, target int) int {
	switch ownerKind {
	case 0:
		switch target {
		case 0:
			return vfTableItself
		case 1:
			return vfTableCell
		case 2:
			return vfTableRow
		}
	case 1, 2:
		switch target {
		case 0:
			return vfColItself
		case 1:
			return vfColCell
		}
	case 3:
		switch target {
		case 0, 2:
			return vfRowItself
		case 1:
			return vfRowCell
		}
	case 4:
		switch target {
		case 0, 1:
			return vfCellOwn
		}
	}
	return -1
}

type vfWorld struct {
	t      *ATable
	regs   []*vfReg
	log    []vfEv
	expect []vfEv
	rowOwn *Row  // the row that row-level registrations are attached to
	celOwn *Cell // the cell that cell-level registrations are attached to
}

// fire appends the expected events for callback class cls at time when on target po; match tells
// whether a registration's owner is the one concerned.
func (w *vfWorld) fire(cls, when int, po PropertyOwner, match func(r *vfReg) bool) {
	for _, r := range w.regs {
		if r.ok && r.when == when && vfClass(r.ownerKind, r.target) == cls && match(r) {
			w.expect = append(w.expect, vfEv{r.cb.id, po})
		}
	}
}

func vfAny(r *vfReg) bool { return true }

// expectRender computes the documented render-time sequence.
func (w *vfWorld) expectRender() {
	t := w.t
	pre, ren, post := int(CB_AT_RENDER_PRECELL), int(CB_AT_RENDER), int(CB_AT_RENDER_POSTCELL)
	ncol := t.NColumns()
	colIs := func(c *column) func(r *vfReg) bool {
		return func(r *vfReg) bool { return r.owner == PropertyOwner(c) }
	}
	w.fire(vfTableItself, pre, t, vfAny)
	for i := 0; i <= ncol; i++ {
		w.fire(vfColItself, pre, t.Column(i), colIs(t.Column(i)))
	}
	var rows []*Row
	if t.headerRow != nil {
		rows = append(rows, t.headerRow)
	}
	rows = append(rows, t.AllRows()...)
	for _, row := range rows {
		rowIs := func(r *vfReg) bool { return r.owner == PropertyOwner(row) }
		w.fire(vfRowItself, pre, row, rowIs)
		for j := range row.cells {
			cell := &row.cells[j]
			var col *column
			if row != t.headerRow && j+1 <= ncol {
				col = t.Column(j + 1)
			}
			cellIs := func(r *vfReg) bool { return r.owner == PropertyOwner(cell) }
			w.fire(vfTableCell, pre, cell, vfAny)
			if col != nil {
				w.fire(vfColCell, pre, cell, colIs(col))
			}
			w.fire(vfRowCell, pre, cell, rowIs)
			w.fire(vfTableCell, ren, cell, vfAny)
			w.fire(vfCellOwn, ren, cell, cellIs)
			w.fire(vfRowCell, post, cell, rowIs)
			if col != nil {
				w.fire(vfColCell, post, cell, colIs(col))
			}
			w.fire(vfTableCell, post, cell, vfAny)
		}
		w.fire(vfRowItself, post, row, rowIs)
	}
	for i := 0; i <= ncol; i++ {
		w.fire(vfColItself, post, t.Column(i), colIs(t.Column(i)))
	}
	w.fire(vfTableItself, post, t, vfAny)
}

func (w *vfWorld) register(idx int) {
	t := w.t
	r := &vfReg{}
	r.ownerKind = vfChoice(vfName("owner", idx), 5)
	switch r.ownerKind {
	case 0:
		r.owner = t
	case 1:
		r.owner = t.Column(0)
	case 2:
		r.owner = t.Column(1)
	case 3:
		r.owner = w.rowOwn
	case 4:
		r.owner = w.celOwn
	}
	// when and target are arbitrary integers, including values that are not enumerators
	when := vfAnyInt(vfName("when", idx))
	target := vfAnyInt(vfName("target", idx))
	r.cb = &vfRecCB{id: idx, log: &w.log, key: &vfKeyT13{idx}}
	err := t.RegisterPropertyCallback(r.owner, callbackTime(when), cbTarget(target), r.cb)
	// supported combinations, as a non-forking condition over the symbolic integers
	targetOK := vfOr(target == 0, target == 1)
	if r.ownerKind == 0 || r.ownerKind == 3 {
		targetOK = vfOr(targetOK, target == 2)
	}
	supported := vfAnd(targetOK, vfAnd(when >= 0, when <= 3))
	if err == nil {
		vfAssert(supported, "unsupported-registration-refused")
		r.when, r.target = vfConcrete(when), vfConcrete(target)
	} else {
		vfAssert(!supported, "supported-registration-accepted")
	}
	r.ok = err == nil
	w.regs = append(w.regs, r)
}

func (w *vfWorld) compare(tag string) {
	vfObserveInt(tag+"events", len(w.log))
	vfAssert(len(w.log) == len(w.expect), tag+"each-callback-once-per-target")
	if len(w.log) != len(w.expect) {
		return
	}
	for i := range w.log {
		vfAssert(w.log[i].id == w.expect[i].id, tag+"documented-order")
		vfAssert(w.log[i].po == w.expect[i].po, tag+"live-object-handed-over")
	}
}

// VerifC13_render: registrations made after the rows exist; one or two render passes.
func VerifC13_render() {
	w := &vfWorld{t: New()}
	t := w.t
	nreg := 1
	shapeChoices := 6
	if vfChoice("pair", 2) == 1 {
		nreg = 2
		if vfTier() == 0 {
			shapeChoices = 2
		}
	}
	// shapes: header yes/no, rows
	switch vfChoice("shape", shapeChoices) {
	case 0:
		t.AddHeaders("h1", "h2")
		t.AddRowItems("a", "b")
	case 1:
		t.AddRowItems("a")
		t.AddSeparator()
		t.AddRowItems("c", "d")
	case 2:
		t.AddHeaders("h1")
		t.AddRowItems("a", "b")
		t.AddRowItems()
	case 3:
		t.AddHeaders("h1", "h2")
		t.AddSeparator()
	case 4:
		t.AddRowItems("a", "b")
		t.AddRowItems("c", "d")
	case 5:
		t.AddHeaders("h1", "h2")
		t.AddRowItems("a")
		t.AddRowItems("c", "d")
	}
	// owners for row- and cell-level registrations: the first row with cells and its first cell, or
	// (second choice) the last row whatever it is - a separator or a row without cells included
	for _, r := range t.AllRows() {
		if len(r.cells) > 0 {
			w.rowOwn = r
			w.celOwn = &r.cells[0]
			break
		}
	}
	if rows := t.AllRows(); len(rows) > 0 && vfChoice("row-owner", 2) == 1 {
		w.rowOwn = rows[len(rows)-1]
		if len(w.rowOwn.cells) == 0 {
			vfTag("cell-less-row-owner")
		}
	}
	if w.rowOwn == nil {
		w.rowOwn = NewRow()
		w.rowOwn.Add(NewCell("detached"))
		w.celOwn = &w.rowOwn.cells[0]
	}
	if w.celOwn == nil {
		detached := NewRow()
		detached.Add(NewCell("detached"))
		w.celOwn = &detached.cells[0]
	}
	if t.NColumns() < 1 {
		vfAssume(false)
	}
	for i := 0; i < nreg; i++ {
		w.register(i)
	}
	passes := 1 + vfChoice("passes", 2)
	for p := 0; p < passes; p++ {
		w.expectRender()
		t.InvokeRenderCallbacks()
	}
	w.compare("")
	// properties set by the callbacks are visible through the table: count per (registration, target)
	for _, r := range w.regs {
		if !r.ok {
			continue
		}
		seen := map[PropertyOwner]int{}
		var order []PropertyOwner
		for _, e := range w.expect {
			if e.id == r.cb.id {
				if seen[e.po] == 0 {
					order = append(order, e.po)
				}
				seen[e.po]++
			}
		}
		for _, po := range order {
			var through PropertyOwner
			switch x := po.(type) {
			case *ATable:
				through = t
			case *column:
				for i := 0; i <= t.NColumns(); i++ {
					if t.Column(i) == x {
						through = t.Column(i)
					}
				}
			case *Row:
				through = x
				for _, rr := range t.AllRows() {
					if rr == x {
						through = rr
					}
				}
			case *Cell:
				loc := x.Location()
				if c, err := t.CellAt(loc); err == nil {
					through = c
				} else {
					through = x // header cells are not addressable through CellAt
				}
			}
			got := through.GetProperty(r.cb.key)
			vfAssert(got != nil, "property-set-by-callback-visible-through-table")
			if got != nil {
				vfAssert(got.(int) == seen[po], "property-counts-invocations")
			}
		}
	}
}

// VerifC13_add: add-time callbacks fire once per matching target when rows and cells are added.
func VerifC13_add() {
	w := &vfWorld{t: New()}
	t := w.t
	t.AddHeaders("h1", "h2")
	row := NewRow()
	w.rowOwn = row
	dummy := NewCell("unused")
	w.celOwn = &dummy
	nreg := 1 + vfChoice("pair", 2)
	for i := 0; i < nreg; i++ {
		w.register(i)
	}
	add := int(CB_AT_ADD)
	rowIs := func(r *vfReg) bool { return r.owner == PropertyOwner(row) }
	// two cells added to the row before it joins the table
	ncells := 1 + vfChoice("ncells", 2)
	for j := 0; j < ncells; j++ {
		row.Add(NewCell("c"))
		w.fire(vfRowCell, add, &row.cells[j], rowIs)
	}
	t.AddRow(row)
	w.fire(vfRowItself, add, row, rowIs)
	w.fire(vfTableRow, add, row, vfAny)
	for j := 0; j < ncells; j++ {
		col := t.Column(j + 1)
		w.fire(vfColCell, add, &row.cells[j], func(r *vfReg) bool { return r.owner == PropertyOwner(col) })
		w.fire(vfTableCell, add, &row.cells[j], vfAny)
	}
	// a second row through AddRowItems
	if vfChoice("second", 2) == 1 {
		t.AddRowItems("x")
		r2 := t.AllRows()[1]
		w.fire(vfTableRow, add, r2, vfAny)
		col := t.Column(1)
		w.fire(vfColCell, add, &r2.cells[0], func(r *vfReg) bool { return r.owner == PropertyOwner(col) })
		w.fire(vfTableCell, add, &r2.cells[0], vfAny)
	}
	w.compare("add-")
}

// VerifC13_cellcopies: a cell carrying its own render callback is added by value to two rows; each
// live copy then gets one more callback. Every callback fires exactly once per pass on its own cell.
func VerifC13_cellcopies() {
	var log []vfEv
	t := New()
	t.AddHeaders("h1", "h2")
	when := callbackTime(1 + vfChoice("when", 3)) // one of the three render times
	proto := NewCell("shared")
	nPre := vfChoice("npre", 3)
	var pre []*vfRecCB
	for i := 0; i < nPre; i++ {
		cb := &vfRecCB{id: 100 + i, log: &log, key: &vfKeyT13{100 + i}}
		pre = append(pre, cb)
		vfAssert(t.RegisterPropertyCallback(&proto, CB_AT_RENDER, CB_ON_ITSELF, cb) == nil, "register-ok")
	}
	r1, r2 := NewRow(), NewRow()
	r1.Add(NewCell("a")).Add(proto)
	r2.Add(NewCell("b")).Add(proto)
	t.AddRow(r1).AddRow(r2)
	c1, _ := t.CellAt(CellLocation{Row: 1, Column: 2})
	c2, _ := t.CellAt(CellLocation{Row: 2, Column: 2})
	cb1 := &vfRecCB{id: 1, log: &log, key: &vfKeyT13{1}}
	cb2 := &vfRecCB{id: 2, log: &log, key: &vfKeyT13{2}}
	order := vfChoice("order", 2)
	if order == 0 {
		vfAssert(t.RegisterPropertyCallback(c1, CB_AT_RENDER, CB_ON_CELL, cb1) == nil, "register-ok")
		vfAssert(t.RegisterPropertyCallback(c2, CB_AT_RENDER, CB_ON_CELL, cb2) == nil, "register-ok")
	} else {
		vfAssert(t.RegisterPropertyCallback(c2, CB_AT_RENDER, CB_ON_CELL, cb2) == nil, "register-ok")
		vfAssert(t.RegisterPropertyCallback(c1, CB_AT_RENDER, CB_ON_CELL, cb1) == nil, "register-ok")
	}
	_ = when
	// updating a cell (the documented duty after its item changed) keeps its callbacks
	switch vfChoice("update", 3) {
	case 1:
		c1.Update()
		vfTag("cell-updated-before-render")
	case 2:
		c1.Update()
		c2.Update()
		vfTag("cell-updated-before-render")
	}
	t.InvokeRenderCallbacks()
	// expected: on cell (1,2): the pre callbacks then cb1; on cell (2,2): the pre callbacks then cb2
	var want []vfEv
	for _, cb := range pre {
		want = append(want, vfEv{cb.id, c1})
	}
	want = append(want, vfEv{1, c1})
	for _, cb := range pre {
		want = append(want, vfEv{cb.id, c2})
	}
	want = append(want, vfEv{2, c2})
	vfAssert(len(log) == len(want), "copies-each-callback-once-per-target")
	if len(log) == len(want) {
		for i := range log {
			vfAssert(log[i].id == want[i].id, "copies-callbacks-stay-with-their-cell")
			vfAssert(log[i].po == want[i].po, "copies-live-object-handed-over")
		}
	}
}

// VerifC13_columns: column-level cell callbacks follow the column a cell sits in - also for a cell
// that was copied by value out of another column, and also after the table grew past its initial
// column capacity in one step.
func VerifC13_columns() {
	var log []vfEv
	t := New()
	t.AddHeaders("h1", "h2", "h3")
	t.AddRowItems("a", "b", "c")
	k := 1 + vfChoice("col", 3) // the column carrying the callback
	other := 1 + (k % 3)
	when := callbackTime(vfChoice("when", 4))
	cbK := &vfRecCB{id: 1, log: &log, key: &vfKeyT13{31}}
	cbO := &vfRecCB{id: 2, log: &log, key: &vfKeyT13{32}}
	vfAssert(t.RegisterPropertyCallback(t.Column(k), when, CB_ON_CELL, cbK) == nil, "register-ok")
	vfAssert(t.RegisterPropertyCallback(t.Column(other), when, CB_ON_CELL, cbO) == nil, "register-ok")
	var want []vfEv
	scenario := vfChoice("scenario", 2)
	var r2 *Row
	switch scenario {
	case 0:
		// a live cell of column k copied into a new row at another column index
		src, _ := t.CellAt(CellLocation{Row: 1, Column: k})
		r2 = NewRow()
		for i := 1; i < other; i++ {
			r2.Add(NewCell("pad"))
		}
		r2.Add(*src)
		t.AddRow(r2)
	case 1:
		// growth past the initial capacity in one step
		n := 10 + vfChoice("grow", 3)
		items := make([]interface{}, n)
		for i := range items {
			items[i] = "g"
		}
		t.AddRowItems(items...)
		r2 = t.AllRows()[1]
	}
	if when == CB_AT_ADD {
		// adding the row fires, cell by cell, the callbacks of the column each cell sits in
		for j := range r2.cells {
			if j+1 == k {
				want = append(want, vfEv{1, &r2.cells[j]})
			}
			if j+1 == other {
				want = append(want, vfEv{2, &r2.cells[j]})
			}
		}
	}
	if when != CB_AT_ADD {
		t.InvokeRenderCallbacks()
		if when != CB_AT_RENDER { // column-level cell callbacks exist for the pre- and post-cell times
			for _, row := range t.AllRows() {
				for j := range row.cells {
					if j+1 == k {
						want = append(want, vfEv{1, &row.cells[j]})
					}
					if j+1 == other {
						want = append(want, vfEv{2, &row.cells[j]})
					}
				}
			}
		}
	}
	vfAssert(len(log) == len(want), "column-callbacks-once-per-cell-of-that-column")
	if len(log) == len(want) {
		for i := range log {
			vfAssert(log[i].id == want[i].id, "column-callbacks-follow-the-column")
			vfAssert(log[i].po == want[i].po, "column-callbacks-live-object")
		}
	}
}

// VerifC13_many: several table-level cell callbacks of one time together with cell callbacks on two
// columns: every callback still fires once per matching cell, column callbacks on their own column.
func VerifC13_many() {
	var log []vfEv
	t := New()
	t.AddHeaders("h1", "h2", "h3")
	t.AddRowItems("a", "b", "c")
	t.AddRowItems("d", "e")
	when := callbackTime(1 + 2*vfChoice("when", 2)) // pre-cell or post-cell
	nTable := 1 + vfChoice("ntable", 7)
	var tcb []*vfRecCB
	for i := 0; i < nTable; i++ {
		cb := &vfRecCB{id: 10 + i, log: &log, key: &vfKeyT13{40 + i}}
		tcb = append(tcb, cb)
		vfAssert(t.RegisterPropertyCallback(t, when, CB_ON_CELL, cb) == nil, "register-ok")
	}
	c1 := &vfRecCB{id: 1, log: &log, key: &vfKeyT13{61}}
	c2 := &vfRecCB{id: 2, log: &log, key: &vfKeyT13{62}}
	c3 := &vfRecCB{id: 3, log: &log, key: &vfKeyT13{63}}
	vfAssert(t.RegisterPropertyCallback(t.Column(1), when, CB_ON_CELL, c1) == nil, "register-ok")
	vfAssert(t.RegisterPropertyCallback(t.Column(2), when, CB_ON_CELL, c2) == nil, "register-ok")
	vfAssert(t.RegisterPropertyCallback(t.Column(3), when, CB_ON_CELL, c3) == nil, "register-ok")
	t.InvokeRenderCallbacks()
	var want []vfEv
	for _, row := range t.AllRows() {
		for j := range row.cells {
			cell := &row.cells[j]
			colcb := []*vfRecCB{c1, c2, c3}[j]
			if when == CB_AT_RENDER_PRECELL {
				for _, cb := range tcb {
					want = append(want, vfEv{cb.id, cell})
				}
				want = append(want, vfEv{colcb.id, cell})
			} else {
				want = append(want, vfEv{colcb.id, cell})
				for _, cb := range tcb {
					want = append(want, vfEv{cb.id, cell})
				}
			}
		}
	}
	// header cells: table-level callbacks only (they are in no column)
	var body []vfEv
	for _, e := range log {
		c := e.po.(*Cell)
		if c.Location().Row != 0 {
			body = append(body, e)
		} else {
			vfAssert(e.id >= 10, "header-cells-get-table-callbacks-only")
		}
	}
	vfAssert(len(body) == len(want), "many-each-callback-once-per-target")
	if len(body) == len(want) {
		for i := range body {
			vfAssert(body[i].id == want[i].id, "many-documented-order")
			vfAssert(body[i].po == want[i].po, "many-live-object")
		}
	}
}

// VerifC13_sharedrow: a row object that sits in two tables is a target in every render pass of each
// table holding it: its own callbacks and its cells' fire once per pass, whatever the order and number
// of passes of the two tables. (A row listed twice in one table is left out: the statement does not say
// whether that is one target or two.)
func VerifC13_sharedrow() {
	var log []vfEv
	t1, t2 := New(), New()
	r := NewRow()
	r.Add(NewCell("s1")).Add(NewCell("s2"))
	listings1, listings2 := 1, 1
	switch vfChoice("layout", 2) {
	case 0:
		t1.AddRow(r)
		t2.AddRowItems("x")
		t2.AddRow(r)
	case 1:
		t1.AddRowItems("x")
		t1.AddRow(r)
		t2.AddRow(r)
	}
	rowCB := &vfRecCB{id: 1, log: &log, key: &vfKeyT13{1}}
	cellCB := &vfRecCB{id: 2, log: &log, key: &vfKeyT13{2}}
	vfAssert(t1.RegisterPropertyCallback(r, CB_AT_RENDER_POSTCELL, CB_ON_ITSELF, rowCB) == nil, "register-ok")
	vfAssert(t1.RegisterPropertyCallback(r, CB_AT_RENDER_PRECELL, CB_ON_CELL, cellCB) == nil, "register-ok")
	passes := 2 + vfChoice("passes", 2)
	wantRow, wantCell := 0, 0
	for p := 0; p < passes; p++ {
		if vfChoice(vfName("which", p), 2) == 0 {
			t1.InvokeRenderCallbacks()
			wantRow += listings1
			wantCell += 2 * listings1
		} else {
			t2.InvokeRenderCallbacks()
			wantRow += listings2
			wantCell += 2 * listings2
		}
		nRow, nCell := 0, 0
		for _, e := range log {
			if e.id == 1 {
				nRow++
				vfAssert(e.po == PropertyOwner(r), "shared-row-live-object-handed-over")
			} else {
				nCell++
			}
		}
		vfAssert(nRow == wantRow, "shared-row-callback-once-per-listing-per-pass")
		vfAssert(nCell == wantCell, "shared-row-cell-callbacks-once-per-cell-per-pass")
	}
}

type vfCountCB struct {
	n    int
	fail bool
}

type vfCountErr struct{}

func (vfCountErr) Error() string { return "callback failed" }

func (cb *vfCountCB) UpdateProperties(po PropertyOwner) error {
	cb.n++
	if cb.fail {
		return vfCountErr{}
	}
	return nil
}

// VerifC13_equalcallbacks: two distinct callback objects that happen to be in the same state when they
// are registered (two fresh counters) are two registrations: each fires once per matching target.
func VerifC13_equalcallbacks() {
	t := New()
	t.AddHeaders("h1", "h2")
	t.AddRowItems("a", "b")
	t.AddRowItems("c", "d")
	cb1, cb2 := &vfCountCB{}, &vfCountCB{}
	row := t.AllRows()[0]
	cell, _ := t.CellAt(CellLocation{Row: 2, Column: 2})
	want := 0
	switch vfChoice("owner", 5) {
	case 0: // table-level cell callbacks: header cells and body cells
		vfAssert(t.RegisterPropertyCallback(t, CB_AT_RENDER, CB_ON_CELL, cb1) == nil, "register-ok")
		vfAssert(t.RegisterPropertyCallback(t, CB_AT_RENDER, CB_ON_CELL, cb2) == nil, "register-ok")
		want = 6
	case 1: // a row: its own pass and (same list in the implementation) the row target
		vfAssert(t.RegisterPropertyCallback(row, CB_AT_RENDER_POSTCELL, CB_ON_ITSELF, cb1) == nil, "register-ok")
		vfAssert(t.RegisterPropertyCallback(row, CB_AT_RENDER_POSTCELL, CB_ON_ROW, cb2) == nil, "register-ok")
		want = 1
	case 2: // a cell
		vfAssert(t.RegisterPropertyCallback(cell, CB_AT_RENDER, CB_ON_ITSELF, cb1) == nil, "register-ok")
		vfAssert(t.RegisterPropertyCallback(cell, CB_AT_RENDER, CB_ON_CELL, cb2) == nil, "register-ok")
		want = 1
	case 3: // the table itself, before and after the cells
		vfAssert(t.RegisterPropertyCallback(t, CB_AT_RENDER_PRECELL, CB_ON_ITSELF, cb1) == nil, "register-ok")
		vfAssert(t.RegisterPropertyCallback(t, CB_AT_RENDER_PRECELL, CB_ON_ITSELF, cb2) == nil, "register-ok")
		want = 1
	case 4: // a header cell, reached through Headers()
		hc := &t.Headers()[0]
		vfAssert(t.RegisterPropertyCallback(hc, CB_AT_RENDER, CB_ON_ITSELF, cb1) == nil, "register-ok")
		vfAssert(t.RegisterPropertyCallback(hc, CB_AT_RENDER, CB_ON_ITSELF, cb2) == nil, "register-ok")
		want = 1
		vfTag("header-cell-callback")
	}
	// a callback that reports an error has still fired, and so do the ones registered after it
	// (set after registration: at registration time the two objects are in the same state)
	cb1.fail = vfBool("first-fails")
	passes := 1 + vfChoice("passes", 2)
	for p := 0; p < passes; p++ {
		t.InvokeRenderCallbacks()
	}
	vfAssert(cb1.n == want*passes, "first-of-two-equal-callbacks-fires-once-per-target")
	vfAssert(cb2.n == want*passes, "second-of-two-equal-callbacks-fires-once-per-target")
	vfObserveInt("n1", cb1.n)
	vfObserveInt("n2", cb2.n)
}

// VerifC13_passes: two render passes with a registration in between: a callback registered on an
// owner itself (the table, a column that has or has not one already) after the first pass fires once in
// the second, exactly as one registered before the first; the earlier one fires once per pass.
func VerifC13_passes() {
	var log []vfEv
	t := New()
	t.AddRowItems("a", "b")
	t.AddRowItems("c", "d")
	// the pass runs an owner's own callbacks before and after the cells (the two times the pass
	// documents for tables and columns themselves)
	times := []callbackTime{CB_AT_RENDER_PRECELL, CB_AT_RENDER_POSTCELL}
	owners := []PropertyOwner{t.Column(1), t.Column(2), t}
	e := vfChoice("early-owner", 4) // 3: none
	early := &vfRecCB{id: 1, log: &log, key: &vfKeyT13{41}}
	earlyOK := false
	if e < 3 {
		earlyOK = t.RegisterPropertyCallback(owners[e], times[vfChoice("early-when", 2)], CB_ON_ITSELF, early) == nil
	}
	t.InvokeRenderCallbacks()
	n1 := len(log)
	if earlyOK {
		vfAssert(n1 == 1, "render-callbacks-once-per-pass")
	} else {
		vfAssert(n1 == 0, "render-callbacks-once-per-pass")
	}
	if vfChoice("grow-between", 2) == 1 {
		t.AddRowItems("e")
	}
	l := vfChoice("late-owner", 3)
	late := &vfRecCB{id: 2, log: &log, key: &vfKeyT13{42}}
	lateOK := t.RegisterPropertyCallback(owners[l], times[vfChoice("late-when", 2)], CB_ON_ITSELF, late) == nil
	t.InvokeRenderCallbacks()
	nEarly, nLate := 0, 0
	for _, ev := range log[n1:] {
		if ev.id == 1 {
			nEarly++
			vfAssert(ev.po == owners[e], "callbacks-live-object")
		} else {
			nLate++
			vfAssert(ev.po == owners[l], "callbacks-live-object")
		}
	}
	if earlyOK {
		vfAssert(nEarly == 1, "render-callbacks-once-per-pass")
	}
	if lateOK {
		vfAssert(nLate == 1, "callback-registered-between-passes-fires-in-the-next")
		vfAssert(owners[l].GetProperty(late.key) == 1, "property-set-by-callback-visible")
	}
}
