package tabular

import "go.pennock.tech/tabular/length"

func vfUniString(name string, n int) string {
	k := vfChoice(name+".n", n+1)
	s := ""
	for i := 0; i < k; i++ {
		switch vfChoice(vfName(name+".a", i), 6) {
		case 0:
			s += string([]byte{vfByte(vfName(name+".b", i), vfASCII)})
		case 1:
			s += "\n"
		case 2:
			s += "é"
		case 3:
			s += "世"
		case 4:
			s += "́"
		case 5:
			s += "​"
		}
	}
	return s
}

func vfWideLines(name string, n int) string {
	k := vfChoice(name+".n", n+1)
	s := ""
	for i := 0; i < k; i++ {
		switch vfChoice(vfName(name+".a", i), 4) {
		case 0:
			s += "x"
		case 1:
			s += "世"
		case 2:
			s += "\n"
		case 3:
			s += "\U0001F4AA\u200d\U0001F4AA" // one grapheme cluster of several wide runes
		}
	}
	return s
}

// A cell whose item does not override its size: height == number of lines, width == widest line.
func VerifC18_cell() {
	n := 3
	if vfTier() == 1 {
		n = 5
	}
	verifC18Cell(vfUniString("s", n))
}

func VerifC18_cellwidelines() {
	n := 5
	if vfTier() == 1 {
		n = 7
	}
	verifC18Cell(vfWideLines("w", n))
}

func verifC18Cell(s string) {
	c := NewCell(s)
	// a cell holding that cell (or a text-like item with that text) has the same text and no size
	// override: the same agreement holds for it
	switch vfChoice("holder", 3) {
	case 1:
		outer := NewCell(c)
		verifC18Consistent(&outer, s)
		vfTag("nested-cell")
	case 2:
		st := NewCell(&vfMutable{s})
		verifC18Consistent(&st, s)
	}
	lines := c.Lines()
	vfAssert(c.String() == s, "text-is-string")
	vfAssert(c.Height() == len(lines), "height-is-line-count")
	maxC := 0
	for i := range lines {
		w := length.StringCells(lines[i])
		maxC = vfIteInt(w > maxC, w, maxC)
	}
	vfAssert(c.TerminalCellWidth() == maxC, "width-is-widest-line")
	vfAssert(len(lines) == len(length.Lines(s)), "cell-lines-are-length-lines")
	vfObserveInt("height", c.Height())
	vfObserveInt("width", c.TerminalCellWidth())
	vfObserveInt("nlines", len(lines))
}

type vfMutable struct{ s string }

func (m *vfMutable) String() string { return m.s }

// VerifC18_updated: after the item changed (also to the empty string) and the cell was updated, height,
// width and lines agree with the new text.
func VerifC18_updated() {
	n := 2
	if vfTier() == 1 {
		n = 3
	}
	m := &vfMutable{vfUniString("s1", n)}
	c := NewCell(m)
	m.s = vfUniString("s2", n)
	c.Update()
	verifC18Consistent(&c, m.s)
}

func verifC18Consistent(c *Cell, s string) {
	lines := c.Lines()
	vfAssert(c.String() == s, "text-is-string")
	vfAssert(c.Height() == len(lines), "height-is-line-count")
	maxC := 0
	for i := range lines {
		w := length.StringCells(lines[i])
		maxC = vfIteInt(w > maxC, w, maxC)
	}
	vfAssert(c.TerminalCellWidth() == maxC, "width-is-widest-line")
	vfAssert(len(lines) == len(length.Lines(s)), "cell-lines-are-length-lines")
}

// VerifC18_runes: a rune item is the cell text string(r) and is measured through that text like any
// other: also for values that are not valid code points (their text is the replacement character).
func VerifC18_runes() {
	runes := []rune{'a', 'é', '世', 0, '\n', '\t', 0x200b, 0x0301, -1, 0xD800, 0xDFFF, 0x110000, 0x7fffffff, 0xFFFD, 0x1F44D}
	r := runes[vfChoice("rune", len(runes))]
	var c Cell
	if vfChoice("via", 2) == 0 {
		c = NewCell(r)
	} else {
		t := New()
		t.AddRowItems(r)
		p, _ := t.CellAt(CellLocation{Row: 1, Column: 1})
		c = *p
	}
	verifC18Consistent(&c, string(r))
	vfObserveInt("width", c.TerminalCellWidth())
	vfObserveInt("height", c.Height())
}
