package tabular

type vfShadowRow struct {
	ptr      *Row
	cells    int
	sep      bool
	attached bool
}

// VerifC02_history: after an arbitrary history of table-building calls, counts, order and addressing
// follow the history. The history is a vector of symbolic opcodes; the lookup coordinates r, c and the
// column index n are unconstrained 64-bit integers.
func VerifC02_history() {
	K := 3
	if vfTier() == 1 {
		K = 4
	}
	t := New()
	var all []*vfShadowRow      // every row created, attached or not
	var attached []*vfShadowRow // rows of the table in order
	hdr := -1
	hdrMax := 0 // replacing the header never shrinks the table: columns only grow
	steps := vfChoice("steps", K+1)
	mkItems := func(step int) []interface{} {
		n := vfChoice(vfName("n", step), 3)
		items := make([]interface{}, n)
		for i := range items {
			items[i] = "x"
		}
		return items
	}
	for s := 0; s < steps; s++ {
		nops := 8
		if s == steps-1 {
			nops = 10 // copying a live cell / one very wide row: as the last step of the history
		}
		switch vfChoice(vfName("op", s), nops) {
		case 8: // a live cell copied by value out of an attached row and added to another created row
			var srcs []*vfShadowRow
			for _, sr := range attached {
				if !sr.sep && sr.cells > 0 {
					srcs = append(srcs, sr)
				}
			}
			if len(srcs) == 0 || len(all) == 0 {
				vfAssume(false)
			}
			src := srcs[vfChoice(vfName("src", s), len(srcs))]
			var c Cell
			if vfChoice(vfName("how", s), 2) == 0 {
				c = src.ptr.Cells()[0]
			} else {
				pc, _ := t.CellAt(CellLocation{Row: src.ptr.Location().Row, Column: 1})
				c = *pc
			}
			dst := all[vfChoice(vfName("j", s), len(all))]
			dst.ptr.Add(c)
			if !dst.sep {
				dst.cells++
			}
			vfTag("cell-copied-between-rows")
		case 9: // one wide row: the table grows past its initial column capacity in one step
			n := 10
			items := make([]interface{}, n)
			for i := range items {
				items[i] = "w"
			}
			t.AddRowItems(items...)
			rows := t.AllRows()
			sr := &vfShadowRow{ptr: rows[len(rows)-1], cells: n, attached: true}
			all = append(all, sr)
			attached = append(attached, sr)
			vfTag("wide-row")
		case 0: // AddHeaders
			items := mkItems(s)
			t.AddHeaders(items...)
			hdr = len(items)
			if hdr > hdrMax {
				hdrMax = hdr
			}
		case 1: // AddRowItems
			items := mkItems(s)
			t.AddRowItems(items...)
			rows := t.AllRows()
			sr := &vfShadowRow{ptr: rows[len(rows)-1], cells: len(items), attached: true}
			all = append(all, sr)
			attached = append(attached, sr)
		case 2: // AddRow of a freshly built row
			items := mkItems(s)
			r := NewRow()
			for i := range items {
				r.Add(NewCell(items[i]))
			}
			t.AddRow(r)
			sr := &vfShadowRow{ptr: r, cells: len(items), attached: true}
			all = append(all, sr)
			attached = append(attached, sr)
		case 3: // AddSeparator
			t.AddSeparator()
			rows := t.AllRows()
			sr := &vfShadowRow{ptr: rows[len(rows)-1], sep: true, attached: true}
			all = append(all, sr)
			attached = append(attached, sr)
		case 4: // AppendNewRow
			r := t.AppendNewRow()
			sr := &vfShadowRow{ptr: r, attached: true}
			all = append(all, sr)
			attached = append(attached, sr)
		case 5: // NewRowSizedFor: a detached row
			r := t.NewRowSizedFor()
			all = append(all, &vfShadowRow{ptr: r})
		case 6: // Row.Add on any row created so far
			if len(all) == 0 {
				vfAssume(false)
			}
			j := vfChoice(vfName("j", s), len(all))
			sr := all[j]
			sr.ptr.Add(NewCell("y"))
			if !sr.sep {
				sr.cells++
			}
			if sr.attached {
				vfTag("add-after-attach")
			}
		case 7: // AddRow of a detached row created earlier
			var det []*vfShadowRow
			for _, sr := range all {
				if !sr.attached {
					det = append(det, sr)
				}
			}
			if len(det) == 0 {
				vfAssume(false)
			}
			sr := det[vfChoice(vfName("j", s), len(det))]
			t.AddRow(sr.ptr)
			sr.attached = true
			attached = append(attached, sr)
		}
	}

	// ---- counts and order
	wantCols := 0
	if hdrMax > wantCols {
		wantCols = hdrMax
	}
	for _, sr := range attached {
		if sr.cells > wantCols {
			wantCols = sr.cells
		}
	}
	vfObserveInt("nrows", t.NRows())
	vfObserveInt("ncols", t.NColumns())
	vfAssert(t.NRows() == len(attached), "row-count")
	vfAssert(t.NColumns() == wantCols, "column-count")
	rows := t.AllRows()
	vfAssert(len(rows) == len(attached), "allrows-length")
	if len(rows) != len(attached) {
		return
	}
	for i, sr := range attached {
		vfAssert(rows[i] == sr.ptr, "rows-in-insertion-order")
		vfAssert(rows[i].IsSeparator() == sr.sep, "separator-flag")
		loc := rows[i].Location()
		vfAssert(loc.Row == i+1, "row-reports-own-position")
		vfAssert(loc.Column == 0, "row-location-column-zero")
		cells := rows[i].Cells()
		if sr.sep {
			vfAssert(cells == nil, "separator-has-no-cells")
		} else {
			vfAssert(len(cells) == sr.cells, "row-cell-count")
			for j := range cells {
				cl := cells[j].Location()
				vfAssert(cl.Row == i+1, "cell-location-row")
				vfAssert(cl.Column == j+1, "cell-location-column")
			}
		}
	}
	hs := t.Headers()
	if hdr < 0 {
		vfAssert(hs == nil, "no-headers-is-nil")
	} else {
		vfAssert(len(hs) == hdr, "header-count")
	}

	// ---- the row list handed out is a copy
	if len(rows) >= 2 {
		rows[0], rows[1] = rows[1], rows[0]
	}
	rows = rows[:0]
	again := t.AllRows()
	vfAssert(len(again) == len(attached), "copy-not-truncated")
	for i, sr := range attached {
		if i < len(again) {
			vfAssert(again[i] == sr.ptr, "copy-not-reordered")
		}
	}

	// ---- lookup with arbitrary coordinates
	r := vfAnyInt("r")
	c := vfAnyInt("c")
	valid := false
	for i, sr := range attached {
		valid = vfOr(valid, vfAnd(r == i+1, vfAnd(!sr.sep, vfAnd(c >= 1, c <= sr.cells))))
	}
	cell, err := t.CellAt(CellLocation{Row: r, Column: c})
	vfObserveBool("cellat-err", err != nil)
	if err == nil {
		vfAssert(valid, "lookup-succeeds-only-in-range")
		vfAssert(cell != nil, "lookup-returns-cell")
		if cell == nil {
			return
		}
		loc := cell.Location()
		vfAssert(vfAnd(loc.Row == r, loc.Column == c), "found-cell-reports-its-location")
		rr, cc := vfConcrete(r), vfConcrete(c)
		if rr >= 1 && rr <= len(attached) && !attached[rr-1].sep && cc >= 1 && cc <= len(attached[rr-1].ptr.cells) {
			vfAssert(cell == &attached[rr-1].ptr.cells[cc-1], "lookup-returns-that-very-cell")
		}
	} else {
		vfAssert(!valid, "lookup-fails-only-out-of-range")
		vfAssert(cell == nil, "failed-lookup-returns-no-cell")
		e, ok := err.(NoSuchCellError)
		vfAssert(ok, "error-is-no-such-cell")
		if ok {
			vfAssert(vfAnd(e.Location.Row == r, e.Location.Column == c), "error-names-the-coordinates")
		}
	}

	// ---- column handles exist exactly for 0..NColumns (each of them, concretely, as well)
	for i := 0; i <= wantCols; i++ {
		vfAssert(t.Column(i) != nil, "column-handle-for-every-column")
	}
	n := vfAnyInt("col")
	col := t.Column(n)
	inRange := vfAnd(n >= 0, n <= wantCols)
	if col != nil {
		vfAssert(inRange, "column-handle-only-in-range")
	} else {
		vfAssert(!inRange, "column-handle-for-every-column")
	}
}

// VerifC02_sizedrows: rows created by the table at table size (AppendNewRow, NewRowSizedFor) are as
// independent as any other rows: cells added to them in any interleaving, in any number (more or
// fewer than the table has columns), end up in their own row, in order, and nowhere else.
func VerifC02_sizedrows() {
	t := New()
	nc := 1 + vfChoice("cols", 2)
	first := make([]interface{}, nc)
	for i := range first {
		first[i] = "c"
	}
	base := 0 // rows already in the table
	if vfChoice("via", 2) == 0 {
		t.AddHeaders(first...)
	} else {
		t.AddRowItems(first...)
		base = 1
	}
	nr := 3
	adds := 5
	if vfTier() == 1 {
		nr, adds = 3, 8
	}
	rows := make([]*Row, nr)
	detached := make([]bool, nr)
	for i := range rows {
		if vfChoice(vfName("mk", i), 2) == 0 {
			rows[i] = t.AppendNewRow()
		} else {
			rows[i] = t.NewRowSizedFor()
			detached[i] = true
		}
	}
	content := make([][]int, nr)
	for a := 0; a < adds; a++ {
		j := vfChoice(vfName("to", a), nr)
		rows[j].Add(NewCell(100 + a))
		content[j] = append(content[j], 100+a)
	}
	// positions: rows appended at creation come first in creation order, detached ones are attached now
	var order []int
	for i := range rows {
		if !detached[i] {
			order = append(order, i)
		}
	}
	for i := range rows {
		if detached[i] {
			t.AddRow(rows[i])
			order = append(order, i)
		}
	}
	vfAssert(t.NRows() == base+nr, "row-count")
	all := t.AllRows()
	if len(all) != base+nr {
		vfFail("allrows-length")
		return
	}
	for pos, i := range order {
		rowNum := base + pos + 1
		vfAssert(all[rowNum-1] == rows[i], "rows-in-insertion-order")
		cells := rows[i].Cells()
		vfAssert(len(cells) == len(content[i]), "row-cell-count")
		if len(cells) != len(content[i]) {
			continue
		}
		for k := range cells {
			vfAssert(cells[k].Item() == interface{}(content[i][k]), "cell-is-the-one-added-there")
			loc := cells[k].Location()
			vfAssert(vfAnd(loc.Row == rowNum, loc.Column == k+1), "found-cell-reports-its-location")
			got, err := t.CellAt(CellLocation{Row: rowNum, Column: k + 1})
			vfAssert(err == nil, "lookup-succeeds-only-in-range")
			if err == nil {
				vfAssert(got.Item() == interface{}(content[i][k]), "lookup-returns-that-very-cell")
			}
		}
		_, err := t.CellAt(CellLocation{Row: rowNum, Column: len(cells) + 1})
		vfAssert(err != nil, "lookup-fails-only-out-of-range")
	}
	want := nc
	for i := range content {
		if len(content[i]) > want {
			want = len(content[i])
		}
	}
	vfAssert(t.NColumns() == want, "column-count")
	vfObserveInt("ncols", t.NColumns())
}

// VerifC02_verywide: addressing holds for rows of several hundred cells (positions beyond one byte).
func VerifC02_verywide() {
	n := []int{260, 300, 520}[vfChoice("n", 3)]
	t := New()
	t.AddRowItems("first")
	var r *Row
	switch vfChoice("how", 3) {
	case 0:
		items := make([]interface{}, n)
		for i := range items {
			items[i] = "w"
		}
		t.AddRowItems(items...)
		r = t.AllRows()[1]
	case 1:
		r = t.AppendNewRow()
		for i := 0; i < n; i++ {
			r.Add(NewCell("w"))
		}
	case 2:
		r = NewRow()
		for i := 0; i < n; i++ {
			r.Add(NewCell("w"))
		}
		t.AddRow(r)
	}
	vfAssert(t.NColumns() == n, "column-count")
	cells := r.Cells()
	vfAssert(len(cells) == n, "row-cell-count")
	if len(cells) != n {
		return
	}
	for _, c := range []int{1, 2, 127, 128, 129, 255, 256, 257, 258, n - 1, n} {
		loc := cells[c-1].Location()
		vfAssert(vfAnd(loc.Row == 2, loc.Column == c), "cell-location-column")
		got, err := t.CellAt(CellLocation{Row: 2, Column: c})
		vfAssert(err == nil, "lookup-succeeds-only-in-range")
		if err == nil {
			gl := got.Location()
			vfAssert(vfAnd(gl.Row == 2, gl.Column == c), "found-cell-reports-its-location")
		}
	}
	_, err := t.CellAt(CellLocation{Row: 2, Column: n + 1})
	vfAssert(err != nil, "lookup-fails-only-out-of-range")
	vfAssert(t.Column(n) != nil, "column-handle-for-every-column")
	vfAssert(t.Column(n+1) == nil, "column-handle-only-in-range")
}
