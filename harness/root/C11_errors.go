package tabular

import "errors"

func vfMaybeNil(name string, e error) error {
	if vfBool(name) {
		return nil
	}
	return e
}

// VerifC11_container: one AddError / AddErrorList step from an arbitrary valid pre-state of the
// container (inductive step: the invariant "no nil entries, order preserved" is re-established from
// any state satisfying it, so container histories of any length are covered; the bound is the list size).
func VerifC11_container() {
	pool := []error{errors.New("p0"), errors.New("p1"), errors.New("p2")}
	fresh := []error{errors.New("n0"), errors.New("n1"), errors.New("n2")}
	evil := errors.New("caller-mutation")
	var ec *ErrorContainer
	kind := vfChoice("recv", 3) // 0 constructed, 1 zero value, 2 nil pointer
	npre := 0
	if kind != 2 {
		npre = vfChoice("npre", 4)
	}
	switch kind {
	case 0:
		ec = NewErrorContainer()
	case 1:
		ec = &ErrorContainer{}
	}
	if kind != 2 {
		switch vfChoice("preshape", 3) {
		case 0: // built through the API
			for i := 0; i < npre; i++ {
				ec.AddError(pool[i])
			}
		case 1: // exact-capacity backing array
			if npre > 0 {
				ec.errors_ = make([]error, npre)
				copy(ec.errors_, pool[:npre])
			}
		case 2: // spare capacity
			ec.errors_ = make([]error, npre, npre+2)
			copy(ec.errors_, pool[:npre])
		}
	}
	want := append([]error(nil), pool[:npre]...)
	nops := 1 + vfChoice("nops", 2)
	for op := 0; op < nops; op++ {
		if vfChoice(vfName("op", op), 2) == 0 {
			e := vfMaybeNil(vfName("nil", op*8), fresh[op])
			ec.AddError(e)
			if e != nil {
				want = append(want, e)
			}
		} else {
			n := vfChoice(vfName("nl", op), 5) - 1 // -1: nil list
			var l []error
			if n >= 0 {
				l = make([]error, n)
				for i := range l {
					l[i] = vfMaybeNil(vfName("nil", op*8+i), fresh[i])
					if l[i] == nil {
						vfTag("nil-entry")
					}
				}
			}
			ec.AddErrorList(l)
			for i := range l {
				if l[i] != nil {
					want = append(want, l[i])
				}
			}
			// the caller goes on using its own list
			for i := range l {
				l[i] = evil
			}
			l = append(l[:0], evil, evil, evil, evil)
		}
	}
	if kind == 2 {
		want = nil
		vfTag("nil-receiver")
	}
	got := ec.Errors()
	vfObserveInt("n", len(got))
	if len(want) == 0 {
		vfAssert(got == nil, "nil-when-no-errors")
		return
	}
	vfAssert(len(got) == len(want), "none-lost-none-duplicated")
	for i := range got {
		vfAssert(got[i] != nil, "no-nil-entries")
		if i < len(want) {
			vfAssert(got[i] == want[i], "in-order-and-independent-of-caller-list")
		}
	}
}

type vfErrCB struct {
	name   string
	fail   bool
	raised *[]error
	mine   []error
}

func (cb *vfErrCB) UpdateProperties(po PropertyOwner) error {
	if cb.fail {
		e := errors.New(cb.name)
		*cb.raised = append(*cb.raised, e)
		cb.mine = append(cb.mine, e)
		return e
	}
	return nil
}

// VerifC11_routing: every error raised while building or rendering reaches Table.Errors() exactly
// once; which callbacks exist, which of them fail (symbolic booleans), and when rows are attached vary.
func VerifC11_routing() {
	var raised []error
	var cbs []*vfErrCB
	mk := func(name string) *vfErrCB {
		cb := &vfErrCB{name: name, fail: vfBool("fail-" + name), raised: &raised}
		cbs = append(cbs, cb)
		return cb
	}
	t := New()
	t.AddHeaders("h1", "h2")
	direct := 0
	misuse := 0
	if vfChoice("reg-table-cell", 2) == 1 {
		vfAssert(t.RegisterPropertyCallback(t, CB_AT_ADD, CB_ON_CELL, mk("table-cell-add")) == nil, "register-ok")
	}
	if vfChoice("reg-table-row", 2) == 1 {
		vfAssert(t.RegisterPropertyCallback(t, CB_AT_ADD, CB_ON_ROW, mk("table-row-add")) == nil, "register-ok")
	}
	if vfChoice("reg-col-cell", 2) == 1 {
		vfAssert(t.RegisterPropertyCallback(t.Column(1), CB_AT_ADD, CB_ON_CELL, mk("col1-cell-add")) == nil, "register-ok")
	}
	// the table may already hold an error; the row may come from any of the row constructors
	d0 := errors.New("table-error-before")
	if vfChoice("table-error", 2) == 1 {
		t.AddError(d0)
		direct++
		vfTag("table-has-error")
	}
	var r *Row
	rowKind := vfChoice("row-kind", 3)
	switch rowKind {
	case 0:
		r = NewRow()
	case 1:
		r = t.NewRowSizedFor()
		vfTag("row-sized-for-table")
	case 2:
		r = NewRowWithCapacity(1)
	}
	d1 := errors.New("direct-before-attach")
	if vfChoice("direct1", 2) == 1 {
		r.AddError(d1)
		direct++
	}
	if vfChoice("reg-row-cell", 2) == 1 {
		vfAssert(t.RegisterPropertyCallback(r, CB_AT_ADD, CB_ON_CELL, mk("row-cell-add")) == nil, "register-ok")
		vfTag("row-cell-callback")
		if vfChoice("reg-row-cell-2", 2) == 1 {
			vfAssert(t.RegisterPropertyCallback(r, CB_AT_ADD, CB_ON_CELL, mk("row-cell-add-2")) == nil, "register-ok")
			vfTag("two-row-cell-callbacks")
		}
	}
	if vfChoice("reg-row-itself", 2) == 1 {
		vfAssert(t.RegisterPropertyCallback(r, CB_AT_ADD, CB_ON_ITSELF, mk("row-itself-add")) == nil, "register-ok")
	}
	r.Add(NewCell("a")) // before the row joins the table
	t.AddRow(r)
	r.Add(NewCell("b")) // after
	if vfChoice("sep-misuse", 2) == 1 {
		t.AddSeparator()
		rows := t.AllRows()
		rows[len(rows)-1].Add(NewCell("z"))
		misuse++
		vfTag("separator-add")
	}
	if vfChoice("render", 2) == 1 {
		vfAssert(t.RegisterPropertyCallback(t, CB_AT_RENDER, CB_ON_CELL, mk("table-cell-render")) == nil, "register-ok")
		if vfChoice("reg-col-cell", 2) == 1 {
			vfAssert(t.RegisterPropertyCallback(t.Column(1), CB_AT_RENDER_PRECELL, CB_ON_CELL, mk("col1-cell-pre-render")) == nil, "register-ok")
			vfAssert(t.RegisterPropertyCallback(t.Column(2), CB_AT_RENDER_POSTCELL, CB_ON_CELL, mk("col2-cell-post-render")) == nil, "register-ok")
		} else {
			vfAssert(t.RegisterPropertyCallback(r, CB_AT_RENDER_PRECELL, CB_ON_ITSELF, mk("row-pre-render")) == nil, "register-ok")
			vfAssert(t.RegisterPropertyCallback(t, CB_AT_RENDER_POSTCELL, CB_ON_ITSELF, mk("table-post-render")) == nil, "register-ok")
		}
		t.InvokeRenderCallbacks()
	}
	if vfChoice("render", 2) == 1 {
		// printing the table for debugging must not disturb it
		dump := t.GoString()
		vfAssert(len(dump) > 0, "debug-print-works")
	}
	got := t.Errors()
	total := len(raised) + direct + misuse
	vfObserveInt("errors", len(got))
	vfObserveInt("raised", len(raised))
	if total == 0 {
		vfAssert(got == nil, "nil-when-no-errors")
		return
	}
	vfAssert(len(got) == total, "every-error-exactly-once")
	for i := range got {
		vfAssert(got[i] != nil, "no-nil-entries")
	}
	pos := func(e error) int {
		n, at := 0, -1
		for i := range got {
			if got[i] == e {
				n++
				at = i
			}
		}
		if n != 1 {
			return -1
		}
		return at
	}
	for _, e := range raised {
		vfAssert(pos(e) >= 0, "raised-error-reported-once")
	}
	if vfChoice("direct1", 2) == 1 {
		vfAssert(pos(d1) >= 0, "direct-row-error-reported-once")
	}
	if vfChoice("table-error", 2) == 1 {
		vfAssert(pos(d0) >= 0, "earlier-table-error-still-reported-once")
	}
	for _, cb := range cbs {
		for i := 1; i < len(cb.mine); i++ {
			vfAssert(pos(cb.mine[i-1]) < pos(cb.mine[i]), "same-source-order-kept")
		}
	}
	// AppendNewRow afterwards must not disturb the list either
	before, raisedBefore := len(t.Errors()), len(raised)
	t.AppendNewRow()
	vfAssert(len(t.Errors()) == before+len(raised)-raisedBefore, "append-new-row-adds-only-newly-raised-errors")
}

// VerifC11_emptyrow: errors a detached row gathered while it had no cells yet (recorded directly, or
// by misusing a zero-value row) move to the table when the row is attached, like any others.
func VerifC11_emptyrow() {
	t := New()
	if vfChoice("hdr", 2) == 1 {
		t.AddHeaders("h")
	}
	total := 0
	d0 := errors.New("table-error-before")
	if vfChoice("table-error", 2) == 1 {
		t.AddError(d0)
		total++
	}
	var r *Row
	kind := vfChoice("row-kind", 4)
	switch kind {
	case 0:
		r = NewRow()
	case 1:
		r = t.NewRowSizedFor()
	case 2:
		r = NewRowWithCapacity(2)
	case 3:
		r = &Row{}
	}
	d1 := errors.New("first")
	d2 := errors.New("second")
	n := vfChoice("row-errors", 3)
	if n >= 1 {
		r.AddError(d1)
		total++
	}
	if n >= 2 {
		r.AddError(d2)
		total++
	}
	cellsBefore := vfChoice("cells-before", 2)
	if cellsBefore == 1 {
		r.Add(NewCell("a"))
		if kind == 3 {
			total++ // a zero-value row is not a cell row: the misuse is recorded
			vfTag("zero-value-row-misused")
		}
	}
	t.AddRow(r)
	if vfChoice("cells-after", 2) == 1 {
		r.Add(NewCell("b"))
		if kind == 3 {
			total++
		}
	}
	late := errors.New("after-attach")
	if vfChoice("late", 2) == 1 {
		r.AddError(late)
		total++
	}
	got := t.Errors()
	vfObserveInt("errors", len(got))
	if total == 0 {
		vfAssert(got == nil, "nil-when-no-errors")
		return
	}
	vfAssert(len(got) == total, "every-error-exactly-once")
	count := func(e error) int {
		k := 0
		for i := range got {
			if got[i] == e {
				k++
			}
		}
		return k
	}
	for i := range got {
		vfAssert(got[i] != nil, "no-nil-entries")
	}
	if vfChoice("table-error", 2) == 1 {
		vfAssert(count(d0) == 1, "earlier-table-error-still-reported-once")
	}
	if n >= 1 {
		vfAssert(count(d1) == 1, "direct-row-error-reported-once")
	}
	if n >= 2 {
		vfAssert(count(d2) == 1, "direct-row-error-reported-once")
	}
	if vfChoice("late", 2) == 1 {
		vfAssert(count(late) == 1, "direct-row-error-reported-once")
	}
}

type vfNilPtrErr struct{}

func (e *vfNilPtrErr) Error() string { return "an error value whose pointer is nil" }

type vfSliceErr []int

func (e vfSliceErr) Error() string { return "an error value that is a nil slice" }

type vfCount11 struct{ n int }

func (cb *vfCount11) UpdateProperties(po PropertyOwner) error {
	cb.n++
	return nil
}

type vfConstErrCB struct{ e error }

func (cb vfConstErrCB) UpdateProperties(po PropertyOwner) error { return cb.e }

// VerifC11_typednil: an error is whatever is not the nil interface: values whose concrete pointer or
// slice is nil are recorded like any other, through every way an error reaches the table.
func VerifC11_typednil() {
	var e error
	if vfChoice("kind", 2) == 0 {
		e = (*vfNilPtrErr)(nil)
	} else {
		e = vfSliceErr(nil)
	}
	plain := errors.New("plain")
	t := New()
	t.AddHeaders("h")
	want := 2
	switch vfChoice("via", 5) {
	case 0:
		t.AddError(plain)
		t.AddError(e)
	case 1:
		ec := NewErrorContainer()
		ec.AddErrorList([]error{plain, nil, e})
		vfAssert(len(ec.Errors()) == 2, "every-error-exactly-once")
		t.AddErrorList(ec.Errors())
	case 2:
		r := NewRow()
		r.AddError(e)
		r.Add(NewCell("a"))
		t.AddRow(r)
		t.AddError(plain)
	case 3: // a callback returns it at add time
		vfAssert(t.RegisterPropertyCallback(t, CB_AT_ADD, CB_ON_CELL, vfConstErrCB{e}) == nil, "register-ok")
		t.AddRowItems("a")
		t.AddError(plain)
	case 4: // and at render time, once per cell
		t.AddRowItems("a")
		counter := &vfCount11{}
		vfAssert(t.RegisterPropertyCallback(t, CB_AT_RENDER, CB_ON_CELL, counter) == nil, "register-ok")
		vfAssert(t.RegisterPropertyCallback(t, CB_AT_RENDER, CB_ON_CELL, vfConstErrCB{e}) == nil, "register-ok")
		t.InvokeRenderCallbacks()
		t.AddError(plain)
		want = 1 + counter.n
		vfAssert(counter.n >= 1, "render-callback-fired")
	}
	got := t.Errors()
	vfAssert(len(got) == want, "every-error-exactly-once")
	n := 0
	for _, g := range got {
		vfAssert(g != nil, "no-nil-entries")
		switch x := g.(type) {
		case *vfNilPtrErr:
			if x == nil {
				n++
			}
		case vfSliceErr:
			if x == nil {
				n++
			}
		}
	}
	vfAssert(n == want-1, "typed-nil-error-recorded")
	vfObserveInt("n", len(got))
}

// VerifC11_acrossrenders: the error list only grows: what was recorded before, between and during
// render passes is all there afterwards, each error once.
func VerifC11_acrossrenders() {
	t := New()
	t.AddHeaders("h1")
	t.AddRowItems("a")
	var raised []error
	fail := vfChoice("failing-render-callback", 2) == 1
	if fail {
		cb := &vfErrCB{name: "render", fail: true, raised: &raised}
		vfAssert(t.RegisterPropertyCallback(t, CB_AT_RENDER_POSTCELL, CB_ON_ITSELF, cb) == nil, "register-ok")
	}
	e0 := errors.New("before-first-render")
	e1 := errors.New("between-renders")
	direct := 0
	if vfChoice("before", 2) == 1 {
		t.AddError(e0)
		direct++
	}
	t.InvokeRenderCallbacks()
	between := vfChoice("between", 4)
	switch between {
	case 1:
		t.AddError(e1)
		direct++
	case 2: // a row arriving with an error of its own
		r := NewRow()
		r.AddError(e1)
		r.Add(NewCell("b"))
		t.AddRow(r)
		direct++
	case 3: // misuse of a separator row
		t.AddSeparator()
		rows := t.AllRows()
		rows[len(rows)-1].Add(NewCell("z"))
		direct++
	}
	passes := 1 + vfChoice("more-passes", 2)
	for p := 0; p < passes; p++ {
		t.InvokeRenderCallbacks()
	}
	got := t.Errors()
	total := direct + len(raised)
	if total == 0 {
		vfAssert(got == nil, "nil-when-no-errors")
		return
	}
	vfAssert(len(got) == total, "every-error-exactly-once")
	count := func(e error) int {
		k := 0
		for _, g := range got {
			if g == e {
				k++
			}
		}
		return k
	}
	if vfChoice("before", 2) == 1 {
		vfAssert(count(e0) == 1, "earlier-table-error-still-reported-once")
	}
	if between == 1 || between == 2 {
		vfAssert(count(e1) == 1, "error-recorded-between-renders-reported-once")
	}
	for _, e := range raised {
		vfAssert(count(e) == 1, "raised-error-reported-once")
	}
	vfObserveInt("n", len(got))
}
