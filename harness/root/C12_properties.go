package tabular

type vfKeyT struct{ n int }

var vfPtrKeys = []*vfKeyT{{0}, {1}, {2}}

// distinct pointers whose pointees are equal: still three different keys
var vfTwinKeys = []*vfKeyT{{7}, {7}, {7}}

// vfKey builds a property key of a symbolic kind and value: equal numbers of distinct types are
// distinct keys; pointer keys are distinguished by identity.
func vfKey(name string) (interface{}, int, int) {
	kind := vfChoice(name+".kind", 4)
	v := vfInt(name+".v", 0, 2)
	switch kind {
	case 0:
		return v, kind, v
	case 1:
		return int64(v), kind, v
	case 3:
		vc := vfConcrete(v)
		return vfTwinKeys[vc], kind, vc
	}
	vc := vfConcrete(v)
	return vfPtrKeys[vc], kind, vc
}

func vfChainLen(ps propertySet) int {
	n := 0
	for {
		vp, ok := ps.(*valueProperty)
		if !ok {
			return n
		}
		n++
		ps = vp.chain
	}
}

// VerifC12_step: one SetProperty from an arbitrary well-formed chain (inductive step).
func VerifC12_step() {
	maxPre := 3
	if vfTier() == 1 {
		maxPre = 4
	}
	npre := vfChoice("npre", maxPre+1)
	var pi propertyImpl
	if vfChoice("terminal", 2) == 1 {
		pi.properties = noProperty
	}
	type kv struct {
		k          interface{}
		kind, kval int
		v          int
	}
	var pre []kv
	for i := 0; i < npre; i++ {
		k, kind, kval := vfKey(vfName("k", i))
		for _, p := range pre {
			if p.kind == kind {
				vfAssume(p.kval != kval) // well-formed chain: keys pairwise distinct
			}
		}
		val := vfInt(vfName("v", i), 1, 3)
		pre = append(pre, kv{k, kind, kval, val})
		pi.properties = withValue(pi.properties, k, val)
	}
	vfAssert(vfChainLen(pi.properties) == npre, "pre-chain-length")
	// the operation
	k, kind, kval := vfKey("setk")
	setNil := vfChoice("setnil", 2) == 1
	newVal := vfInt("setv", 4, 6)
	present := false
	for _, p := range pre {
		if p.kind == kind && p.kval == kval {
			present = true
		}
	}
	var err error
	if setNil {
		err = pi.SetProperty(k, nil)
	} else {
		err = pi.SetProperty(k, newVal)
	}
	vfAssert(err == nil, "set-ok")
	// functional update, observed through an arbitrary key
	q, qkind, qval := vfKey("getk")
	got := pi.GetProperty(q)
	if qkind == kind && qval == kval {
		if setNil {
			vfAssert(got == nil, "get-after-set-nil-is-nil")
		} else {
			vfAssert(got == newVal, "get-returns-last-set")
		}
	} else {
		found := false
		for _, p := range pre {
			if p.kind == qkind && p.kval == qval {
				found = true
				vfAssert(got == p.v, "other-keys-unchanged")
			}
		}
		if !found {
			vfAssert(got == nil, "unset-key-is-nil")
		}
	}
	wantLen := npre
	if present && setNil {
		wantLen--
	}
	if !present && !setNil {
		wantLen++
	}
	vfAssert(vfChainLen(pi.properties) == wantLen, "stored-state-does-not-grow")
	vfObserveInt("len", vfChainLen(pi.properties))
}

// VerifC12_copies: setting a property on a by-value copy of a cell never changes the original (and
// vice versa), however the copy was made and wherever in the chain the key sits.
func VerifC12_copies() {
	keys := []interface{}{&vfKeyT{10}, &vfKeyT{11}, &vfKeyT{12}}
	n := 1 + vfChoice("nprops", 3)
	orig := NewCell("x")
	for i := 0; i < n; i++ {
		orig.SetProperty(keys[i], 100+i)
	}
	var cp *Cell
	var row *Row
	switch vfChoice("how", 3) {
	case 0: // plain assignment
		c := orig
		cp = &c
	case 1: // stored into a row (Row.Add takes the cell by value)
		row = NewRow()
		row.Add(orig)
		cp = &row.cells[0]
	case 2: // handed out by Row.Cells and copied from there
		row = NewRow()
		row.Add(orig)
		c := row.Cells()[0]
		cp = &c
		// the row's own cell is a third owner
		vfAssert(row.cells[0].GetProperty(keys[0]) == 100, "row-cell-has-property")
	}
	which := vfChoice("which", n)
	setNil := vfChoice("setnil", 2) == 1
	side := vfChoice("side", 2) // 0: set on the copy, 1: set on the original
	target, other := cp, &orig
	if side == 1 {
		target, other = &orig, cp
	}
	if n-1-which >= 1 {
		vfTag("key-below-head")
	}
	if setNil {
		target.SetProperty(keys[which], nil)
	} else {
		target.SetProperty(keys[which], 999)
	}
	for i := 0; i < n; i++ {
		vfAssert(other.GetProperty(keys[i]) == 100+i, "other-owner-unchanged")
		if i != which {
			vfAssert(target.GetProperty(keys[i]) == 100+i, "other-keys-unchanged")
		}
	}
	if setNil {
		vfAssert(target.GetProperty(keys[which]) == nil, "set-nil-removes")
	} else {
		vfAssert(target.GetProperty(keys[which]) == 999, "get-returns-last-set")
	}
	if how2 := row; how2 != nil && vfChoice("how", 3) == 2 {
		for i := 0; i < n; i++ {
			vfAssert(row.cells[0].GetProperty(keys[i]) == 100+i, "third-owner-unchanged")
		}
	}
}

// VerifC12_owners: table, column 0, column i, row and cell are independent owners; a column handle
// obtained before the table grows keeps addressing that column.
func VerifC12_owners() {
	key := &vfKeyT{20}
	t := New()
	t.AddHeaders("a", "b")
	t.AddRowItems("1", "2")
	t.AddSeparator()
	t.AddRowItems("3")
	t.AddSeparator()
	row := t.AllRows()[0]
	cell, _ := t.CellAt(CellLocation{Row: 1, Column: 1})
	cell2, _ := t.CellAt(CellLocation{Row: 1, Column: 2})
	cell3, _ := t.CellAt(CellLocation{Row: 3, Column: 1})
	// a second table built the same way: its parts are other owners still
	u := New()
	u.AddHeaders("a")
	u.AddRowItems("1")
	u.AddSeparator()
	ucell, _ := u.CellAt(CellLocation{Row: 1, Column: 1})
	owners := []PropertyOwner{t, t.Column(0), t.Column(1), t.Column(2), row, cell, cell2,
		t.AllRows()[1], t.AllRows()[2], t.AllRows()[3], cell3, &t.Headers()[0],
		u, u.Column(0), u.Column(1), u.AllRows()[0], u.AllRows()[1], ucell}
	w := vfChoice("owner", len(owners))
	vfAssert(owners[w].SetProperty(key, 7) == nil, "set-ok")
	for i, o := range owners {
		if i == w {
			vfAssert(o.GetProperty(key) == 7, "get-returns-last-set")
		} else {
			vfAssert(o.GetProperty(key) == nil, "other-owner-unchanged")
		}
	}
	// handles taken before the headers are replaced by others
	if vfChoice("reheader", 2) == 1 {
		hb := t.Column(2)
		hb.SetProperty(&vfKeyT{30}, 1)
		t.AddHeaders("renamed-a", "renamed-b")
		vfAssert(t.Column(2).GetProperty(&vfKeyT{30}) == nil, "distinct-pointer-keys-are-distinct")
		k30 := &vfKeyT{31}
		hb.SetProperty(k30, 2)
		vfAssert(t.Column(2).GetProperty(k30) == 2, "old-handle-addresses-same-column")
		t.Column(2).SetProperty(k30, 3)
		vfAssert(hb.GetProperty(k30) == 3, "old-handle-sees-later-sets")
	}
	// handles taken before growth
	h0, h1 := t.Column(0), t.Column(1)
	grow := 3 + vfChoice("grow", 4)*4 // 3, 7, 11, 15 columns: the larger ones exceed the initial capacity
	items := make([]interface{}, grow)
	for i := range items {
		items[i] = "g"
	}
	t.AddRowItems(items...)
	vfAssert(t.NColumns() == grow, "grown")
	if grow+1 > 10 {
		vfTag("grown-past-capacity")
	}
	// columns created by the growth are owners of their own: they start without properties, whatever
	// the defaults column (or any other owner) holds
	for i := 3; i <= grow; i++ {
		vfAssert(t.Column(i).GetProperty(key) == nil, "new-column-starts-without-properties")
	}
	key2 := &vfKeyT{21}
	h1.SetProperty(key2, 8)
	h0.SetProperty(key2, 9)
	vfAssert(t.Column(1).GetProperty(key2) == 8, "old-handle-addresses-same-column")
	vfAssert(t.Column(0).GetProperty(key2) == 9, "old-handle-addresses-defaults-column")
	t.Column(1).SetProperty(key2, 10)
	vfAssert(h1.GetProperty(key2) == 10, "old-handle-sees-later-sets")
	if w == 2 {
		vfAssert(t.Column(1).GetProperty(key) == 7, "earlier-property-survives-growth")
	}
}

// VerifC12_copyseq: a by-value copy of a cell and the original are independent owners over any
// sequence of sets, overwrites and clears on either side after the copy was taken (also with the
// copy taken between an overwrite and the next set).
func VerifC12_copyseq() {
	keys := []interface{}{&vfKeyT{10}, &vfKeyT{11}, &vfKeyT{12}}
	m := 3 + vfTier()
	orig := NewCell("x")
	shadow := [2][3]int{} // 0: unset
	pre := vfChoice("before", 3) // sets on the original before the copy: none, k0, k0 then k0 again
	if pre >= 1 {
		orig.SetProperty(keys[0], 100)
		shadow[0][0] = 100
	}
	if pre == 2 {
		orig.SetProperty(keys[0], 101)
		shadow[0][0] = 101
	}
	var cp *Cell
	if vfChoice("how", 2) == 0 {
		c := orig
		cp = &c
	} else {
		row := NewRow()
		row.Add(orig)
		cp = &row.cells[0]
	}
	shadow[1] = shadow[0]
	owners := []*Cell{&orig, cp}
	for s := 0; s < m; s++ {
		side := vfChoice(vfName("side", s), 2)
		k := vfChoice(vfName("key", s), 3)
		if vfChoice(vfName("clear", s), 2) == 1 {
			owners[side].SetProperty(keys[k], nil)
			shadow[side][k] = 0
		} else {
			owners[side].SetProperty(keys[k], 200+s)
			shadow[side][k] = 200 + s
		}
		for o := 0; o < 2; o++ {
			for i := 0; i < 3; i++ {
				got := owners[o].GetProperty(keys[i])
				if shadow[o][i] == 0 {
					vfAssert(got == nil, "get-returns-last-set-per-owner")
				} else {
					vfAssert(got == interface{}(shadow[o][i]), "get-returns-last-set-per-owner")
				}
			}
		}
	}
}

// VerifC12_nestedcell: a cell whose item is itself a cell is an owner of its own: it does not report
// the inner cell's properties - not when made, not after its own keys were cleared and it was updated -
// and what is set on it does not reach the inner cell.
func VerifC12_nestedcell() {
	k1, k2 := &vfKeyT{40}, &vfKeyT{41}
	inner := NewCell("x")
	inner.SetProperty(k1, 1)
	var outer *Cell
	switch vfChoice("via", 3) {
	case 0:
		c := NewCell(inner)
		outer = &c
	case 1:
		t := New()
		t.AddRowItems("a", inner)
		outer, _ = t.CellAt(CellLocation{Row: 1, Column: 2})
	case 2:
		t := New()
		t.AddHeaders(inner)
		outer = &t.Headers()[0]
	}
	vfAssert(outer.GetProperty(k1) == nil, "wrapper-cell-has-only-its-own-properties")
	switch vfChoice("then", 3) {
	case 1:
		outer.SetProperty(k2, 2)
		outer.SetProperty(k2, nil)
		outer.Update()
	case 2:
		outer.SetProperty(k1, 5)
		vfAssert(outer.GetProperty(k1) == 5, "get-returns-last-set")
		outer.SetProperty(k1, nil)
		outer.Update()
	}
	vfAssert(outer.GetProperty(k1) == nil, "wrapper-cell-has-only-its-own-properties")
	vfAssert(outer.GetProperty(k2) == nil, "wrapper-cell-has-only-its-own-properties")
	vfAssert(inner.GetProperty(k1) == 1, "other-owner-unchanged")
}

// VerifC12_values: a get returns the very value set last: of two distinct pointers with equal pointees
// set one after the other under one key, the second one.
func VerifC12_values() {
	key := &vfKeyT{50}
	p1, p2 := &vfKeyT{5}, &vfKeyT{5}
	t := New()
	t.AddHeaders("h")
	t.AddRowItems("a")
	cell, _ := t.CellAt(CellLocation{Row: 1, Column: 1})
	owners := []PropertyOwner{t, t.Column(0), t.Column(1), t.AllRows()[0], cell}
	o := owners[vfChoice("owner", len(owners))]
	o.SetProperty(key, p1)
	if vfChoice("other-key-between", 2) == 1 {
		o.SetProperty(&vfKeyT{51}, 1)
	}
	o.SetProperty(key, p2)
	got, _ := o.GetProperty(key).(*vfKeyT)
	vfAssert(got == p2, "get-returns-the-value-set-last")
	p2.n = 6
	got2, _ := o.GetProperty(key).(*vfKeyT)
	vfAssert(got2 != nil && got2.n == 6, "get-returns-the-value-set-last")
}

// VerifC12_typednil: a typed nil (nil pointer, nil slice, nil map) is a value like any other: the
// get returns it, with its type, and it replaces what was there; only untyped nil clears.
func VerifC12_typednil() {
	key := &vfKeyT{60}
	t := New()
	t.AddHeaders("h")
	t.AddRowItems("a")
	cell, _ := t.CellAt(CellLocation{Row: 1, Column: 1})
	owners := []PropertyOwner{t, t.Column(0), t.Column(1), t.AllRows()[0], cell}
	o := owners[vfChoice("owner", len(owners))]
	if vfChoice("set-before", 2) == 1 {
		o.SetProperty(key, &vfKeyT{5})
	}
	switch vfChoice("kind", 3) {
	case 0:
		var none *vfKeyT
		o.SetProperty(key, none)
		got, ok := o.GetProperty(key).(*vfKeyT)
		vfAssert(ok && got == nil, "get-returns-the-value-set-last")
	case 1:
		var none []string
		o.SetProperty(key, none)
		got, ok := o.GetProperty(key).([]string)
		vfAssert(ok && got == nil, "get-returns-the-value-set-last")
	case 2:
		var none map[string]int
		o.SetProperty(key, none)
		got, ok := o.GetProperty(key).(map[string]int)
		vfAssert(ok && got == nil, "get-returns-the-value-set-last")
	}
	o.SetProperty(key, nil)
	vfAssert(o.GetProperty(key) == nil, "nil-if-nil-was-set-last")
}
