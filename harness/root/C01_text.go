package tabular

import "fmt"

type vfNamedString string
type vfNamedRune rune
type vfPlain struct{ A int }

// expected text of a method-set type by the documented precedence String > GoString > Error > %v
func vfExpectMask(m int, s, g, e string, h, w int) string {
	if m&1 != 0 {
		return s
	}
	if m&2 != 0 {
		return g
	}
	if m&4 != 0 {
		return e
	}
	return fmt.Sprintf("&{%s %s %s %d %d}", s, g, e, h, w)
}

func vfCheckCell(c *Cell, item interface{}, want string, tag string) {
	vfAssert(c.String() == want, tag+"text")
	vfAssert(c.Empty() == (want == ""), tag+"empty-iff-text-empty")
	if inner, isCell := item.(Cell); isCell {
		// Cell values are not comparable with ==: compare what the handed-back cell reports
		back, ok := c.Item().(Cell)
		vfAssert(ok, tag+"item-unchanged")
		if ok {
			vfAssert(back.String() == inner.String(), tag+"item-unchanged")
		}
	} else {
		vfAssert(c.Item() == item, tag+"item-unchanged")
	}
	vfObserveStr(tag+"text", c.String())
	vfObserveBool(tag+"empty", c.Empty())
}

// Items of the basic kinds.
func VerifC01_basic() {
	L, L2 := 3, 2
	if vfTier() == 1 {
		L, L2 = 8, 5
	}
	var item interface{}
	want := ""
	switch vfChoice("kind", 9) {
	case 0:
		item = nil
	case 1:
		s := vfString("s", L, vfBYTES)
		item, want = s, s
	case 2:
		r := vfRune("r")
		item, want = r, string(r)
		vfTag("rune")
	case 3:
		s := vfString("s", L2, vfBYTES)
		inner := NewCell(s)
		item, want = inner, s
	case 4:
		s := vfString("s", L2, vfBYTES)
		item, want = vfNamedString(s), s
	case 5:
		i := vfInt("i", -11, 10)
		item, want = i, fmt.Sprintf("%d", i)
	case 6:
		b := vfBool("b")
		item = b
		if b {
			want = "true"
		} else {
			want = "false"
		}
	case 7:
		i := vfInt("pi", -1, 1)
		item, want = vfPlain{i}, fmt.Sprintf("{%d}", i)
	case 8:
		// a named rune type is not a rune: formatted by %v as a number
		item, want = vfNamedRune(65), "65"
	}
	c := NewCell(item)
	vfCheckCell(&c, item, want, "")
	// copies of the cell report the same
	d := c
	vfCheckCell(&d, item, want, "copy-")
	// Update without mutation changes nothing
	c.Update()
	vfCheckCell(&c, item, want, "updated-")
}

// Items implementing any combination of the text-form and size-override interfaces, before and after
// the item is mutated and the cell updated; also nested in another cell.
func VerifC01_methodsets() {
	L := 2
	if vfTier() == 1 {
		L = 5
	}
	m := vfChoice("mask", 32)
	// the text the precedence selects is an arbitrary string of up to L bytes; the texts of the
	// methods that must lose are one arbitrary byte each (so they may or may not coincide)
	one := func(name string) string { return string([]byte{vfByte(name, vfBYTES)}) }
	sel := 0 // 1: String, 2: GoString, 3: Error, 0: %v
	if m&1 != 0 {
		sel = 1
	} else if m&2 != 0 {
		sel = 2
	} else if m&4 != 0 {
		sel = 3
	}
	pick := func(name string, which int) string {
		if sel == which {
			return vfString(name, L, vfBYTES)
		}
		return one(name)
	}
	s := pick("s", 1)
	g := pick("g", 2)
	e := pick("e", 3)
	h := vfInt("h", -1, 2)
	w := vfInt("w", -1, 2)
	if m&7 == 0 {
		// %v formatting prints the integers: keep them concrete
		h = vfConcrete(h)
		w = vfConcrete(w)
	}
	item, mutate := vfMake(m, s, g, e, h, w)
	want := vfExpectMask(m, s, g, e, h, w)
	c := NewCell(item)
	vfCheckCell(&c, item, want, "")
	// nested: a cell holding that cell shows the same text
	outer := NewCell(c)
	vfAssert(outer.String() == want, "nested-text")
	vfAssert(outer.Empty() == (want == ""), "nested-empty")
	// mutate the item: the cell keeps the snapshot until asked to update
	s2 := pick("s2", 1)
	g2 := pick("g2", 2)
	e2 := pick("e2", 3)
	mutate(s2, g2, e2)
	vfCheckCell(&c, item, want, "stale-")
	// a by-value copy taken before the update is a cell of its own: updating one leaves the other alone
	snap := c
	c.Update()
	want2 := vfExpectMask(m, s2, g2, e2, h, w)
	vfCheckCell(&c, item, want2, "fresh-")
	vfCheckCell(&snap, item, want, "copy-still-stale-")
	snap.Update()
	vfCheckCell(&snap, item, want2, "copy-fresh-")
}

// a struct stored by value whose text lives behind a pointer it shares with the caller
type vfSharedText struct{ p *string }

func (x vfSharedText) String() string { return *x.p }

// an array stored by value, of pointers shared with the caller: formatted by %v through its elements' String
type vfPtrText struct{ s string }

func (x *vfPtrText) String() string { return x.s }

// VerifC01_shared: items stored by value (struct, array) that share state with the caller are
// re-read on Update like any other item; cells stored as items through the table API are kept as cells.
func VerifC01_shared() {
	LS := 2
	if vfTier() == 1 {
		LS = 4
	}
	s1 := vfString("s1", LS, vfBYTES)
	s2 := vfString("s2", LS, vfBYTES)
	switch vfChoice("kind", 3) {
	case 0:
		text := s1
		item := vfSharedText{&text}
		c := NewCell(item)
		vfAssert(c.String() == s1, "text")
		text = s2
		vfAssert(c.String() == s1, "stale-text")
		c.Update()
		vfAssert(c.String() == s2, "fresh-text")
		vfAssert(c.Empty() == (s2 == ""), "fresh-empty-iff-text-empty")
	case 1:
		e := &vfPtrText{s1}
		item := [1]*vfPtrText{e}
		c := NewCell(item)
		want1 := "[" + s1 + "]"
		vfAssert(c.String() == want1, "text")
		e.s = s2
		c.Update()
		vfAssert(c.String() == "["+s2+"]", "fresh-text")
	case 2:
		// a Cell handed to the table as an item stays the item; its text is the inner cell's snapshot
		src := &vfPtrText{s1}
		inner := NewCell(src)
		t := New()
		if vfChoice("via", 2) == 0 {
			t.AddRowItems(inner, "x")
		} else {
			t.AddHeaders("h", "i")
			t.AddRowItems(inner)
		}
		got, err := t.CellAt(CellLocation{Row: 1, Column: 1})
		vfAssert(err == nil, "cell-found")
		if err != nil {
			return
		}
		vfAssert(got.String() == s1, "nested-text")
		back, isCell := got.Item().(Cell)
		vfAssert(isCell, "item-unchanged")
		if isCell {
			vfAssert(back.Item() == interface{}(src), "item-unchanged")
		}
		src.s = s2
		got.Update()
		vfAssert(got.String() == s1, "nested-cell-gives-inner-cells-text")
		hs := New()
		hs.AddHeaders(inner)
		h := hs.Headers()
		_, hIsCell := h[0].Item().(Cell)
		vfAssert(hIsCell, "item-unchanged")
	}
}

type vfNilSafe struct{ s string }

func (x *vfNilSafe) String() string {
	if x == nil {
		return "(none)"
	}
	return x.s
}

type vfNilSafeErr struct{}

func (x *vfNilSafeErr) Error() string { return "no-error-value" }

// VerifC01_typednil: typed nil values are items like any other: a nil pointer with a nil-safe text
// method gives that method's result, other typed nils are formatted by %v; floats are formatted by %v.
func VerifC01_typednil() {
	var item interface{}
	want := ""
	switch vfChoice("kind", 9) {
	case 0:
		item, want = (*vfNilSafe)(nil), "(none)"
	case 1:
		item, want = (*vfNilSafeErr)(nil), "no-error-value"
	case 2:
		item, want = (*int)(nil), "<nil>"
	case 3:
		item, want = []string(nil), "[]"
	case 4:
		item, want = map[string]int(nil), "map[]"
	case 5:
		item, want = float32(0.1), "0.1"
	case 6:
		item, want = float32(2.24), "2.24"
	case 7:
		item, want = float64(2.5), "2.5"
	case 8:
		item, want = 1e21, "1e+21"
	}
	c := NewCell(item)
	vfAssert(c.String() == want, "text")
	vfAssert(c.Empty() == (want == ""), "empty-iff-text-empty")
	vfAssert(c.TerminalCellWidth() == len(want), "width-of-that-text")
	vfObserveStr("text", c.String())
}

// VerifC01_sequence: the text of a cell depends on its own item only, not on which items were put in
// other cells earlier in the process: items that compare equal as interface values but print
// differently (the two signed zeros of a float type), items of different types with the same value,
// and NaN (never equal to itself).
func VerifC01_sequence() {
	z64 := 0.0
	z32 := float32(0)
	nan := z64 / z64
	items := []interface{}{z64, -z64, z32, -z32, 0, int8(0), uint8(0), false, nan, "0", int64(-0)}
	wants := []string{"0", "-0", "0", "-0", "0", "0", "0", "false", "NaN", "0", "0"}
	i := vfChoice("first", len(items))
	j := vfChoice("second", len(items))
	a := NewCell(items[i])
	b := NewCell(items[j])
	vfAssert(a.String() == wants[i], "text")
	vfAssert(b.String() == wants[j], "text-independent-of-earlier-cells")
	t := New()
	t.AddRowItems(items[i], items[j], items[i])
	for k, w := range []string{wants[i], wants[j], wants[i]} {
		c, err := t.CellAt(CellLocation{Row: 1, Column: k + 1})
		vfAssert(err == nil, "cell-found")
		if err == nil {
			vfAssert(c.String() == w, "text-independent-of-earlier-cells")
			c.Update()
			vfAssert(c.String() == w, "text-independent-of-earlier-cells")
		}
	}
	vfObserveStr("a", a.String())
	vfObserveStr("b", b.String())
}

type vfPlainPtr struct{ X, Y int }

// VerifC01_lazy: the text is taken when the cell is made (or updated), not when it is read: an item
// without text methods that is formatted by %v - a pointer to a struct, a slice, a map - and is mutated
// right after the cell was made, before anything read the cell, still shows the text it had then.
func VerifC01_lazy() {
	x := vfInt("x", 0, 3)
	var item interface{}
	var mutate func()
	old, fresh := "", ""
	switch vfChoice("kind", 3) {
	case 0:
		p := &vfPlainPtr{x, 2}
		item, mutate = p, func() { p.X = 7 }
		old, fresh = fmt.Sprintf("&{%d 2}", x), "&{7 2}"
	case 1:
		sl := []int{x, 2}
		item, mutate = sl, func() { sl[0] = 7 }
		old, fresh = fmt.Sprintf("[%d 2]", x), "[7 2]"
	case 2:
		m := map[string]int{"k": x}
		item, mutate = m, func() { m["k"] = 7 }
		old, fresh = fmt.Sprintf("map[k:%d]", x), "map[k:7]"
	}
	var c *Cell
	switch vfChoice("via", 3) {
	case 0:
		cell := NewCell(item)
		c = &cell
	case 1:
		t := New()
		t.AddRowItems("a", item)
		c, _ = t.CellAt(CellLocation{Row: 1, Column: 2})
	case 2:
		inner := NewCell(item)
		outer := NewCell(inner)
		c = &outer
	}
	mutate()
	first := vfChoice("first-read", 3)
	switch first {
	case 0:
		vfAssert(c.String() == old, "stale-text")
	case 1:
		vfAssert(!c.Empty(), "stale-empty-iff-text-empty")
	case 2:
		vfAssert(c.TerminalCellWidth() == len(old), "stale-width-of-that-text")
	}
	vfAssert(c.String() == old, "stale-text")
	vfAssert(c.String() == old, "stale-text") // two reads agree
	if vfChoice("via", 3) != 2 {
		c.Update()
		vfAssert(c.String() == fresh, "fresh-text")
	}
	vfObserveStr("text", c.String())
}

// an item with its own fmt.Formatter layout besides a String method: the documented text form is String()
type vfFormatted struct{ s string }

func (x vfFormatted) String() string { return x.s }
func (x vfFormatted) Format(f fmt.State, verb rune) {
	f.Write([]byte("formatted:"))
	f.Write([]byte(x.s))
}

type vfFormattedErr struct{ s string }

func (x *vfFormattedErr) Error() string { return x.s }
func (x *vfFormattedErr) Format(f fmt.State, verb rune) {
	f.Write([]byte("E!"))
}

// VerifC01_formatter: the text-form interfaces decide also for items that implement fmt.Formatter as
// well (big numbers, errors with stack traces): String(), else GoString(), else Error() - not %v.
func VerifC01_formatter() {
	s := vfString("s", 2, vfBYTES)
	var item interface{}
	if vfChoice("kind", 2) == 0 {
		item = vfFormatted{s}
	} else {
		item = &vfFormattedErr{s}
	}
	c := NewCell(item)
	vfAssert(c.String() == s, "text")
	vfAssert(c.Empty() == (s == ""), "empty-iff-text-empty")
	vfObserveStr("text", c.String())
}

// named string types: with a text method the method's result is the text (Stringer, error, GoStringer
// in the documented precedence), without one the string value itself.
type vfNamedPlain string
type vfNamedStr string

func (x vfNamedStr) String() string { return "S:" + string(x) }

type vfNamedErr string

func (x vfNamedErr) Error() string { return "" }

type vfNamedGo string

func (x vfNamedGo) GoString() string { return "G:" + string(x) }

func VerifC01_namedstrings() {
	s := vfString("s", 2, vfASCII)
	var item interface{}
	want := ""
	switch vfChoice("kind", 4) {
	case 0:
		item, want = vfNamedPlain(s), s
	case 1:
		item, want = vfNamedStr(s), "S:"+s
	case 2:
		item, want = vfNamedErr(s), ""
	case 3:
		item, want = vfNamedGo(s), "G:"+s
	}
	c := NewCell(item)
	vfAssert(c.String() == want, "text")
	vfAssert(c.Empty() == (want == ""), "empty-iff-text-empty")
	vfObserveStr("text", c.String())
}
