package markdown

import (
	"go.pennock.tech/tabular"
	"go.pennock.tech/tabular/properties/align"
)

func vfSetAlign(t tabular.Table, col int, choice int) {
	switch choice {
	case 1:
		t.Column(col).SetProperty(align.PropertyType, align.Left)
	case 2:
		t.Column(col).SetProperty(align.PropertyType, align.Right)
	case 3:
		t.Column(col).SetProperty(align.PropertyType, align.Center)
	}
}

func vfTrim(s string) string {
	for len(s) > 0 && s[0] == ' ' {
		s = s[1:]
	}
	for len(s) > 0 && s[len(s)-1] == ' ' {
		s = s[:len(s)-1]
	}
	return s
}

// vfSplitLines splits on LF; ok=false unless the text ends with LF.
func vfSplitLines(out string) ([]string, bool) {
	var lines []string
	start := 0
	for i := 0; i < len(out); i++ {
		if out[i] == '\n' {
			lines = append(lines, out[start:i])
			start = i + 1
		}
	}
	return lines, start == len(out)
}

// vfSplitPipes splits a line at pipes that are not preceded by a backslash.
func vfSplitPipes(line string) []string {
	var fields []string
	start := 0
	for i := 0; i < len(line); i++ {
		if line[i] == '|' {
			if i > 0 {
				if line[i-1] == '\\' {
					continue
				}
			}
			fields = append(fields, line[start:i])
			start = i + 1
		}
	}
	return append(fields, line[start:])
}

// vfDecode undoes the entities the escaper may emit; ok=false if a raw markup character or an
// unknown entity appears.
func vfDecode(s string) (string, bool) {
	out := make([]byte, 0, len(s))
	ents := []struct {
		e string
		c byte
	}{{"&amp;", '&'}, {"&lt;", '<'}, {"&gt;", '>'}, {"&#34;", '"'}, {"&#39;", '\''}, {"&#x7c;", '|'}, {"&#x0a;", '\n'}}
	for i := 0; i < len(s); {
		c := s[i]
		if c == '&' {
			matched := false
			for _, en := range ents {
				if len(s)-i >= len(en.e) {
					if s[i:i+len(en.e)] == en.e {
						out = append(out, en.c)
						i += len(en.e)
						matched = true
						break
					}
				}
			}
			if !matched {
				return "", false
			}
			continue
		}
		if c == '<' {
			return "", false
		}
		if c == '>' {
			return "", false
		}
		if c == '"' {
			return "", false
		}
		if c == '\'' {
			return "", false
		}
		if c == '|' {
			return "", false
		}
		if c == '\n' {
			return "", false
		}
		out = append(out, c)
		i++
	}
	return string(out), true
}

func vfCheckDelimiter(cell string, a int) {
	s := vfTrim(cell)
	lead, trail := false, false
	if len(s) > 0 && s[0] == ':' {
		lead = true
		s = s[1:]
	}
	if len(s) > 0 && s[len(s)-1] == ':' {
		trail = true
		s = s[:len(s)-1]
	}
	vfAssert(len(s) >= 3, "delimiter-at-least-three-dashes")
	for i := 0; i < len(s); i++ {
		vfAssert(s[i] == '-', "delimiter-only-dashes")
	}
	switch a {
	case 0, 1: // unset or left
		vfAssert(!trail, "delimiter-left-has-no-trailing-colon")
	case 2:
		vfAssert(trail && !lead, "delimiter-right-colon")
	case 3:
		vfAssert(trail && lead, "delimiter-center-colons")
	}
}

// mode 0: symbolic ASCII texts, alignments unset; mode 1: concrete texts, every alignment assignment;
// mode 2: wide / zero-width / combining characters from a fixed palette, one alignment choice.
func verifC08(cols, maxRows, textLen int, mode int) {
	t := New()
	nText := 0
	text := func(name string) string {
		nText++
		switch mode {
		case 1:
			// (white space other than U+0020 at the ends of a text is content: TAB, no-break space)
			switch nText % 3 {
			case 1:
				return "ab"
			case 2:
				return "\tq\u00a0"
			}
			return "c d e"
		case 2:
			if nText > 3 {
				return "w"
			}
			switch vfChoice(name+".u", 5) {
			case 0:
				return "世"
			case 1:
				return "é|"
			case 2:
				return "a​"
			case 3:
				return "́x<"
			}
			return ""
		}
		if mode == 3 {
			// arbitrary bytes (also invalid UTF-8) in the first text, no CR
			// (each byte one of: ASCII, pipe, LF, lead and continuation bytes of 2- and 3-byte sequences, 0xff)
			if nText == 1 {
				palette := []byte{'a', '|', '\n', 0xc3, 0xa9, 0xff, 0x80, 0xe4, 0xb8, 0x96}
				n := vfChoice(name+".len", textLen+1)
				b := make([]byte, n)
				for i := range b {
					b[i] = palette[vfChoice(vfName(name+".b", i), len(palette))]
				}
				return string(b)
			}
			return "x|y"
		}
		switch nText {
		case 1:
			return vfString(name, textLen, vfASCIInoCR)
		case 2:
			return vfString(name, 1, vfASCIInoCR)
		}
		return "x|y"
	}
	var want [][]string
	early := 0
	if mode == 1 && vfChoice("early-default", 2) == 1 {
		// a default alignment set before any column exists, and changed (below) once they do
		early = 1 + vfChoice("early", 3)
		vfSetAlign(t, 0, early)
		vfTag("default-set-before-columns-exist")
	}
	nh := vfChoice("hdr", cols+2) - 1 // -1: no header
	if nh >= 0 {
		items := make([]interface{}, nh)
		hdr := make([]string, nh)
		for i := range items {
			s := text(vfName("h", i))
			items[i], hdr[i] = s, s
		}
		t.AddHeaders(items...)
		want = append(want, hdr)
	}
	ncols := 0
	if nh > 0 {
		ncols = nh
	}
	nrows := vfChoice("nrows", maxRows+1)
	for r := 0; r < nrows; r++ {
		k := vfChoice(vfName("row", r), cols+2) // 0: separator
		if k == 0 {
			t.AddSeparator()
			continue
		}
		nc := k - 1
		items := make([]interface{}, nc)
		texts := make([]string, nc)
		for i := range items {
			s := text(vfName("c", r*8+i))
			items[i], texts[i] = s, s
		}
		if nc == 0 {
			vfTag("zero-cell-row")
		}
		t.AddRowItems(items...)
		want = append(want, texts)
		if nc > ncols {
			ncols = nc
		}
	}
	// alignments: column 0 (default for all) and each column
	aligns := make([]int, ncols+1)
	for i := 0; i <= ncols; i++ {
		switch mode {
		case 0, 3:
			aligns[i] = 0
		case 1:
			aligns[i] = vfChoice(vfName("align", i), 4)
			if i == 0 && early != 0 && aligns[0] == 0 {
				t.Column(0).SetProperty(align.PropertyType, nil) // the early default is withdrawn
			}
		case 2:
			if i == 1 {
				aligns[i] = vfChoice(vfName("align", i), 4)
			}
		}
		vfSetAlign(t, i, aligns[i])
	}
	out, err := t.Render()
	vfObserveStr("out", out)
	vfObserveBool("err", err != nil)
	if nh < 0 || ncols == 0 {
		vfAssert(err != nil, "refused-without-headers-or-columns")
		vfAssert(out == "", "no-output-on-error")
		return
	}
	vfAssert(err == nil, "render-ok")
	if err != nil {
		return
	}
	lines, ok := vfSplitLines(out)
	vfAssert(ok, "newline-terminated")
	vfAssert(len(lines) == len(want)+1, "header-delimiter-and-one-line-per-row")
	if len(lines) != len(want)+1 {
		return
	}
	for li, line := range lines {
		fields := vfSplitPipes(line)
		vfAssert(len(fields) == ncols+2, "one-more-unescaped-pipe-than-columns")
		if len(fields) != ncols+2 {
			return
		}
		vfAssert(fields[0] == "", "line-starts-with-pipe")
		vfAssert(fields[len(fields)-1] == "", "line-ends-with-pipe")
		cells := fields[1 : len(fields)-1]
		if li == 1 {
			for c := 0; c < ncols; c++ {
				eff := aligns[c+1]
				if eff == 0 {
					eff = aligns[0]
					if eff >= 2 {
						vfTag("column0-default-alignment")
					}
				}
				vfCheckDelimiter(cells[c], eff)
			}
			continue
		}
		wi := li
		if li > 1 {
			wi = li - 1
		}
		for c := 0; c < ncols; c++ {
			dec, dok := vfDecode(cells[c])
			vfAssert(dok, "no-raw-markup-from-content")
			if !dok {
				continue
			}
			wantText := ""
			if c < len(want[wi]) {
				wantText = want[wi][c]
			}
			vfAssert(vfTrim(dec) == vfTrim(wantText), "cell-decodes-to-text")
		}
	}
}

// arbitrary ASCII (no CR) texts in up to three cells
func VerifC08_content() {
	if vfTier() == 0 {
		verifC08(2, 1, 2, 0)
	} else {
		verifC08(2, 2, 2, 0)
	}
}

// arbitrary bytes, including invalid UTF-8, in one header or cell: they come back byte for byte
func VerifC08_bytes() {
	verifC08(1, 1, 2+vfTier(), 3)
}

// every assignment of {unset,left,right,centre} to column 0 and each column
func VerifC08_alignment() {
	verifC08(2, 2, 0, 1)
}

// wide, zero-width and combining characters
func VerifC08_wide() {
	verifC08(2, 1, 0, 2)
}

type vfFlakyWriter struct {
	failAt, calls int
	got           []byte
}

func (w *vfFlakyWriter) Write(p []byte) (int, error) {
	i := w.calls
	w.calls++
	if i == w.failAt {
		return 0, ErrNotCellProperties
	}
	w.got = append(w.got, p...)
	return len(p), nil
}

// VerifC08_afterfailure: a successful render through a wrapper that failed before is a proper table.
func VerifC08_afterfailure() {
	t := New()
	t.AddHeaders("h", vfString("a", 1, vfASCIInoCR))
	t.AddRowItems("x|y", "z")
	t.AddRowItems("only")
	ref, err := t.Render()
	vfAssert(err == nil, "render-ok")
	bad := &vfFlakyWriter{failAt: vfInt("k", 0, 30)}
	good := &vfFlakyWriter{failAt: -1}
	errBad := t.RenderTo(bad)
	vfAssume(bad.calls > bad.failAt) // the failure did happen
	vfAssert(errBad != nil, "failure-surfaces-as-error")
	vfAssert(t.RenderTo(good) == nil, "render-after-failure-ok")
	vfAssert(string(good.got) == ref, "render-after-failure-is-a-proper-table")
}

// VerifC08_rerender: the same wrapper rendered again after an alignment was set, changed or withdrawn
// (column 0 or a column; widths unchanged) shows the current effective alignments in its delimiter row.
func VerifC08_rerender() {
	t := New()
	t.AddHeaders("name", "n")
	t.AddRowItems("alpha", 1)
	a := []int{vfChoice("a0", 4), vfChoice("a1", 4), vfChoice("a2", 4)}
	for i := range a {
		vfSetAlign(t, i, a[i])
	}
	_, err := t.Render()
	vfAssert(err == nil, "render-ok")
	col := vfChoice("col", 3)
	b := vfChoice("then", 4)
	if b == 0 {
		t.Column(col).SetProperty(align.PropertyType, nil)
	} else {
		vfSetAlign(t, col, b)
	}
	a[col] = b
	if vfChoice("grow", 2) == 1 {
		t.AddRowItems("be", 22) // no width changes
	}
	out, err2 := t.Render()
	vfAssert(err2 == nil, "render-ok")
	if err2 != nil {
		return
	}
	lines, ok := vfSplitLines(out)
	vfAssert(ok, "newline-terminated")
	vfAssert(vfOr(!ok, len(lines) >= 3), "header-delimiter-and-one-line-per-row")
	if !ok || len(lines) < 3 {
		return
	}
	fields := vfSplitPipes(lines[1])
	vfAssert(len(fields) == 4, "one-more-unescaped-pipe-than-columns")
	if len(fields) != 4 {
		return
	}
	for c := 1; c <= 2; c++ {
		eff := a[c]
		if eff == 0 {
			eff = a[0]
		}
		vfCheckDelimiter(fields[c], eff)
	}
	fresh, err3 := Wrap(t.Table).Render()
	vfAssert(vfAnd(err3 == nil, fresh == out), "rerender-equals-fresh-wrapper")
}

// VerifC08_lookalikes: texts that already look like the renderer's own escapes (character references
// for the pipe and the newline, an entity-encoded ampersand in front of one) decode back to themselves.
func VerifC08_lookalikes() {
	texts := []string{"&#x7c;", "&#x0a;", "&amp;#x7c;", "a&#124;b", "&amp;amp;#x0a;", "\\|", "&#x7C;", "&amp;"}
	s := texts[vfChoice("text", len(texts))]
	t := New()
	if vfChoice("in-header", 2) == 1 {
		t.AddHeaders(s, "h")
		t.AddRowItems("x", "y")
	} else {
		t.AddHeaders("g", "h")
		t.AddRowItems(s, "y")
	}
	out, err := t.Render()
	vfAssert(err == nil, "render-ok")
	if err != nil {
		return
	}
	lines, ok := vfSplitLines(out)
	vfAssert(ok, "newline-terminated")
	vfAssert(len(lines) == 3, "header-delimiter-and-one-line-per-row")
	if len(lines) != 3 {
		return
	}
	found := false
	for li, line := range lines {
		fields := vfSplitPipes(line)
		vfAssert(len(fields) == 4, "one-more-unescaped-pipe-than-columns")
		if len(fields) != 4 || li == 1 {
			continue
		}
		dec, dok := vfDecode(fields[1])
		vfAssert(dok, "no-raw-markup-from-content")
		if dok && vfTrim(dec) == s {
			found = true
		}
	}
	vfAssert(found, "cell-decodes-to-text")
}
