package auto

import (
	"bytes"

	"go.pennock.tech/tabular"
	"go.pennock.tech/tabular/csv"
	"go.pennock.tech/tabular/html"
	"go.pennock.tech/tabular/json"
	"go.pennock.tech/tabular/markdown"
	"go.pennock.tech/tabular/texttable"
)

func vfFill(t tabular.Table, a, b string) {
	t.AddHeaders("h1", a)
	t.AddRowItems(b, "x")
	t.AddSeparator()
	t.AddRowItems("only")
}

func vfWrapKind(t tabular.Table, k int) tabular.Table {
	switch k {
	case 0:
		return csv.Wrap(t)
	case 1:
		return json.Wrap(t)
	case 2:
		return markdown.Wrap(t)
	case 3:
		return texttable.Wrap(t)
	}
	return html.Wrap(t)
}

// VerifC10_wrappers: the same logical table renders byte-identically whatever created it and whatever
// wrappers are nested around it; package functions, wrapper methods and auto agree.
func VerifC10_wrappers() {
	a := vfString("a", 2, vfTXT)
	b := "b"
	if vfTier() == 1 {
		b = vfString("b", 1, vfTXT)
	}
	var t tabular.Table
	create := vfChoice("create", 9)
	switch create {
	case 0:
		t = tabular.New()
	case 1:
		t = csv.New()
	case 2:
		t = json.New()
	case 3:
		t = markdown.New()
	case 4:
		t = texttable.New()
	case 5:
		t = html.New()
	case 6:
		t = New("csv")
	case 7:
		t = New("markdown")
	case 8:
		t = New("utf8-light")
	}
	if create != 0 {
		vfTag("created-by-subpackage")
	}
	ref := tabular.New()
	vfFill(ref, a, b)
	maxDepth := 1
	if vfTier() == 1 {
		maxDepth = 2
	}
	depth := vfChoice("depth", maxDepth+1)
	// wrappers may be put around the table before or after it is filled
	fillFirst := vfChoice("fill-first", 2) == 1
	if fillFirst {
		vfFill(t, a, b)
	} else {
		vfTag("wrapped-while-empty")
	}
	w := t
	for d := 0; d < depth; d++ {
		w = vfWrapKind(w, vfChoice(vfName("wrap", d), 5))
		vfTag("wrapped")
	}
	if !fillFirst {
		vfFill(w, a, b)
	}
	var refOut, out, viaWrap, viaTo, viaAuto string
	var refErr, err, errWrap, errTo, errAuto error
	var buf bytes.Buffer
	format := vfChoice("format", 5)
	haveDirect := false
	var dOut string
	var dErr error
	// the wrapper object that was put around the table (possibly while it was still empty) is itself a
	// renderer: when it is of the target format, its own Render must agree as well
	if rt, ok := w.(RenderTable); ok {
		match := false
		switch rt.(type) {
		case *csv.CSVTable:
			match = format == 0
		case *json.JSONTable:
			match = format == 1
		case *markdown.MarkdownTable:
			match = format == 2
		case *texttable.TextTable:
			match = format == 3 && create != 8 // auto.New("utf8-light") carries another decoration
		case *html.HTMLTable:
			match = format == 4
		}
		if match {
			// first of all renders: nothing else has wrapped the table again yet
			haveDirect = true
			dOut, dErr = rt.Render()
		}
	}
	switch format {
	case 0:
		refOut, refErr = csv.Render(ref)
		out, err = csv.Render(w)
		viaWrap, errWrap = csv.Wrap(w).Render()
		errTo = csv.RenderTo(w, &buf)
		viaAuto, errAuto = Render(w, "CSV")
	case 1:
		refOut, refErr = json.Render(ref)
		out, err = json.Render(w)
		viaWrap, errWrap = json.Wrap(w).Render()
		errTo = json.RenderTo(w, &buf)
		viaAuto, errAuto = Render(w, "json")
	case 2:
		refOut, refErr = markdown.Render(ref)
		out, err = markdown.Render(w)
		viaWrap, errWrap = markdown.Wrap(w).Render()
		errTo = markdown.RenderTo(w, &buf)
		viaAuto, errAuto = Render(w, "markdown.extra")
	case 3:
		refOut, refErr = texttable.Render(ref)
		out, err = texttable.Render(w)
		viaWrap, errWrap = texttable.Wrap(w).Render()
		errTo = texttable.RenderTo(w, &buf)
		viaAuto, errAuto = Render(w, "texttable")
		vfTag("text-format")
	case 4:
		refOut, refErr = html.Wrap(ref).Render()
		out, err = html.Wrap(w).Render()
		viaWrap, errWrap = Wrap(w, "html.anything").Render()
		errTo = html.Wrap(w).RenderTo(&buf)
		viaAuto, errAuto = Render(w, "HTML")
	}
	viaTo = buf.String()
	if haveDirect {
		vfAssert((dErr == nil) == (refErr == nil), "existing-wrapper-same-error-status")
		if refErr == nil {
			vfAssert(dOut == refOut, "existing-wrapper-renders-same-bytes")
		}
	}
	vfObserveStr("ref", refOut)
	vfObserveStr("out", out)
	vfAssert((err == nil) == (refErr == nil), "same-error-status")
	if refErr != nil {
		// eg JSON refuses an empty header text: every path must refuse alike
		vfAssert(vfAnd(errWrap != nil, vfAnd(errTo != nil, errAuto != nil)), "all-paths-refuse-alike")
		vfAssert(vfAnd(out == "", vfAnd(viaWrap == "", viaAuto == "")), "no-text-on-error")
		return
	}
	vfAssert(out == refOut, "same-bytes-whatever-created-or-wraps-it")
	vfAssert(vfAnd(errWrap == nil, viaWrap == refOut), "wrapper-method-agrees")
	vfAssert(vfAnd(errTo == nil, viaTo == refOut), "renderto-writes-what-render-returns")
	vfAssert(vfAnd(errAuto == nil, viaAuto == refOut), "auto-agrees")
}
