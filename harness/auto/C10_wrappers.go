package auto

import (
	"bytes"

	"go.pennock.tech/tabular"
	"go.pennock.tech/tabular/csv"
	"go.pennock.tech/tabular/html"
	"go.pennock.tech/tabular/json"
	"go.pennock.tech/tabular/markdown"
	"go.pennock.tech/tabular/properties/align"
	"go.pennock.tech/tabular/texttable"
	"go.pennock.tech/tabular/texttable/decoration"
)

func vfFill(t tabular.Table, a, b string) {
	t.AddHeaders("h1", a)
	t.AddRowItems(b, "x")
	t.AddSeparator()
	t.AddRowItems("only")
}

func vfWrapKind(t tabular.Table, k int) tabular.Table {
	switch k {
	case 0:
		return csv.Wrap(t)
	case 1:
		return json.Wrap(t)
	case 2:
		return markdown.Wrap(t)
	case 3:
		return texttable.Wrap(t)
	}
	return html.Wrap(t)
}

// VerifC10_wrappers: the same logical table renders byte-identically whatever created it and whatever
// wrappers are nested around it; package functions, wrapper methods and auto agree.
func VerifC10_wrappers() {
	a := vfString("a", 1+vfTier(), vfTXT)
	b := "b"
	var t tabular.Table
	create := 0
	if vfTier() == 1 {
		create = vfChoice("create", 9)
	} else {
		create = []int{0, 1, 3, 4, 8}[vfChoice("create", 5)]
	}
	switch create {
	case 0:
		t = tabular.New()
	case 1:
		t = csv.New()
	case 2:
		t = json.New()
	case 3:
		t = markdown.New()
	case 4:
		t = texttable.New()
	case 5:
		t = html.New()
	case 6:
		t = New("csv")
	case 7:
		t = New("markdown")
	case 8:
		t = New("utf8-light")
	}
	if create != 0 {
		vfTag("created-by-subpackage")
	}
	// some other table's JSON rendering has failed part-way earlier in the process
	if vfChoice("earlier-failure", 2) == 1 {
		bad := tabular.New()
		bad.AddHeaders("k")
		bad.AddRowItems("fine")
		bad.AddRowItems(vfUnencodable{s: "bad"})
		bo, be := json.Render(bad)
		vfAssert(vfAnd(be != nil, bo == ""), "unencodable-item-refused-without-text")
		vfTag("after-failed-json-render")
	}
	ref := tabular.New()
	vfFill(ref, a, b)
	maxDepth := 1
	if vfTier() == 1 {
		maxDepth = 2
	}
	depth := vfChoice("depth", maxDepth+1)
	// wrappers may be put around the table before or after it is filled
	fillFirst := vfChoice("fill-first", 2) == 1
	if fillFirst {
		vfFill(t, a, b)
	} else {
		vfTag("wrapped-while-empty")
	}
	w := t
	for d := 0; d < depth; d++ {
		if vfTier() == 1 && d == 0 {
			w = vfWrapKind(w, vfChoice(vfName("wrap", d), 5))
		} else {
			w = vfWrapKind(w, []int{0, 2, 3}[vfChoice(vfName("wrap", d), 3)])
		}
		vfTag("wrapped")
	}
	if !fillFirst {
		vfFill(w, a, b)
	}
	var refOut, out, viaWrap, viaTo, viaAuto string
	var refErr, err, errWrap, errTo, errAuto error
	var buf bytes.Buffer
	format := vfChoice("format", 5)
	haveDirect := false
	var dOut string
	var dErr error
	// the wrapper object that was put around the table (possibly while it was still empty) is itself a
	// renderer: when it is of the target format, its own Render must agree as well
	if rt, ok := w.(RenderTable); ok {
		match := false
		switch rt.(type) {
		case *csv.CSVTable:
			match = format == 0
		case *json.JSONTable:
			match = format == 1
		case *markdown.MarkdownTable:
			match = format == 2
		case *texttable.TextTable:
			match = format == 3 && create != 8 // auto.New("utf8-light") carries another decoration
		case *html.HTMLTable:
			match = format == 4
		}
		if match {
			// first of all renders: nothing else has wrapped the table again yet
			haveDirect = true
			dOut, dErr = rt.Render()
		}
	}
	switch format {
	case 0:
		refOut, refErr = csv.Render(ref)
		out, err = csv.Render(w)
		viaWrap, errWrap = csv.Wrap(w).Render()
		errTo = csv.RenderTo(w, &buf)
		viaAuto, errAuto = Render(w, "CSV")
	case 1:
		refOut, refErr = json.Render(ref)
		out, err = json.Render(w)
		viaWrap, errWrap = json.Wrap(w).Render()
		errTo = json.RenderTo(w, &buf)
		viaAuto, errAuto = Render(w, "json")
	case 2:
		refOut, refErr = markdown.Render(ref)
		out, err = markdown.Render(w)
		viaWrap, errWrap = markdown.Wrap(w).Render()
		errTo = markdown.RenderTo(w, &buf)
		viaAuto, errAuto = Render(w, "markdown.extra")
	case 3:
		refOut, refErr = texttable.Render(ref)
		out, err = texttable.Render(w)
		viaWrap, errWrap = texttable.Wrap(w).Render()
		errTo = texttable.RenderTo(w, &buf)
		viaAuto, errAuto = Render(w, "texttable")
		vfTag("text-format")
	case 4:
		refOut, refErr = html.Wrap(ref).Render()
		out, err = html.Wrap(w).Render()
		viaWrap, errWrap = Wrap(w, "html.anything").Render()
		errTo = html.Wrap(w).RenderTo(&buf)
		viaAuto, errAuto = Render(w, "HTML")
	}
	viaTo = buf.String()
	if haveDirect {
		vfAssert((dErr == nil) == (refErr == nil), "existing-wrapper-same-error-status")
		if refErr == nil {
			vfAssert(dOut == refOut, "existing-wrapper-renders-same-bytes")
		}
	}
	vfObserveStr("ref", refOut)
	vfObserveStr("out", out)
	vfAssert((err == nil) == (refErr == nil), "same-error-status")
	if refErr != nil {
		// eg JSON refuses an empty header text: every path must refuse alike
		vfAssert(vfAnd(errWrap != nil, vfAnd(errTo != nil, errAuto != nil)), "all-paths-refuse-alike")
		vfAssert(vfAnd(out == "", vfAnd(viaWrap == "", viaAuto == "")), "no-text-on-error")
		return
	}
	vfAssert(out == refOut, "same-bytes-whatever-created-or-wraps-it")
	vfAssert(vfAnd(errWrap == nil, viaWrap == refOut), "wrapper-method-agrees")
	vfAssert(vfAnd(errTo == nil, viaTo == refOut), "renderto-writes-what-render-returns")
	vfAssert(vfAnd(errAuto == nil, viaAuto == refOut), "auto-agrees")

	// a second format on the same table, then the first one again: still the reference bytes
	second := (format + 1) % 5
	out2, err2 := vfRenderAs(w, second)
	ref2, rerr2 := vfRenderAs(ref, second)
	vfAssert((err2 == nil) == (rerr2 == nil), "second-format-same-error-status")
	if rerr2 == nil {
		vfAssert(out2 == ref2, "second-format-same-bytes")
	}
	again, errAgain := vfRenderAs(w, format)
	vfAssert(vfAnd(errAgain == nil, again == refOut), "first-format-again-same-bytes")

	// the content changes (a cell appended to an attached row); wrapper objects made before the change,
	// package functions and auto still all agree with a freshly built reference
	keep := vfKeep(w, format)
	keepOut0, _ := keep.Render()
	vfAssert(keepOut0 == refOut, "kept-wrapper-agrees-before-change")
	for _, tb := range []tabular.Table{w, ref} {
		rows := tb.AllRows()
		rows[len(rows)-1].Add(tabular.NewCell("late"))
	}
	ref3, rerr3 := vfRenderAs(ref, format)
	keepOut, keepErr := keep.Render() // before anything wraps the table afresh
	out3, err3 := vfRenderAs(w, format)
	vfAssert((err3 == nil) == (rerr3 == nil), "after-change-same-error-status")
	if rerr3 == nil {
		vfAssert(out3 == ref3, "after-change-same-bytes")
		vfAssert(vfAnd(keepErr == nil, keepOut == ref3), "kept-wrapper-agrees-after-change")
	}
	// finally the renderer objects that were there from the start - the created table and the outermost
	// wrapper - render in their own format, after the table has been through all the others
	for _, obj := range []tabular.Table{t, w} {
		rt, ok := obj.(RenderTable)
		if !ok {
			continue
		}
		nf := -1
		switch rt.(type) {
		case *csv.CSVTable:
			nf = 0
		case *json.JSONTable:
			nf = 1
		case *markdown.MarkdownTable:
			nf = 2
		case *texttable.TextTable:
			if create != 8 {
				nf = 3
			}
		case *html.HTMLTable:
			nf = 4
		}
		if nf < 0 {
			continue
		}
		for pass := 0; pass < 2; pass++ {
			ownOut, ownErr := rt.Render()
			refOwn, refOwnErr := vfRenderAs(ref, nf)
			vfAssert((ownErr == nil) == (refOwnErr == nil), "own-format-same-error-status")
			if refOwnErr == nil {
				vfAssert(ownOut == refOwn, "own-format-same-bytes-after-other-renderers")
			}
		}
	}
}

func vfRenderAs(t tabular.Table, f int) (string, error) {
	switch f {
	case 0:
		return csv.Render(t)
	case 1:
		return json.Render(t)
	case 2:
		return markdown.Render(t)
	case 3:
		return texttable.Render(t)
	}
	return html.Wrap(t).Render()
}

func vfKeep(t tabular.Table, f int) RenderTable {
	switch f {
	case 0:
		return csv.Wrap(t)
	case 1:
		return json.Wrap(t)
	case 2:
		return markdown.Wrap(t)
	case 3:
		return texttable.Wrap(t)
	}
	return html.Wrap(t)
}

type vfPlainWriter struct{ got []byte }

func (w *vfPlainWriter) Write(p []byte) (int, error) {
	w.got = append(w.got, p...)
	return len(p), nil
}

// VerifC10_shapes: for tables of every small shape (rows without cells, short and over-long rows,
// separators first or last, with and without headers) the ways of rendering one format agree byte for
// byte: the package function, a wrapper's Render, RenderTo into a bytes.Buffer and into a plain
// io.Writer, and auto by style name.
func VerifC10_shapes() {
	t := tabular.New()
	if vfChoice("hdr", 2) == 1 {
		t.AddHeaders("h1", "h2")
	}
	nrows := 1 + vfChoice("nrows", 2+vfTier())
	for r := 0; r < nrows; r++ {
		k := vfChoice(vfName("row", r), 5) // 0: separator, else k-1 cells
		if k == 0 {
			t.AddSeparator()
			continue
		}
		items := make([]interface{}, k-1)
		for i := range items {
			items[i] = "c"
		}
		t.AddRowItems(items...)
	}
	format := vfChoice("format", 5)
	out, err := vfRenderAs(t, format)
	viaWrap, errWrap := vfKeep(t, format).Render()
	var buf bytes.Buffer
	errBuf := vfKeep(t, format).RenderTo(&buf)
	pw := &vfPlainWriter{}
	errPlain := vfKeep(t, format).RenderTo(pw)
	style := []string{"csv", "json", "markdown", "texttable", "html"}[format]
	viaAuto, errAuto := Render(t, style)
	pa := &vfPlainWriter{}
	errAutoTo := RenderTo(t, pa, style)
	vfObserveStr("out", out)
	vfObserveBool("err", err != nil)
	if err != nil {
		vfAssert(out == "", "no-text-on-error")
		vfAssert(vfAnd(errWrap != nil, vfAnd(errBuf != nil, vfAnd(errPlain != nil, vfAnd(errAuto != nil, errAutoTo != nil)))), "all-paths-refuse-alike")
		return
	}
	vfAssert(vfAnd(errWrap == nil, viaWrap == out), "wrapper-method-agrees")
	vfAssert(vfAnd(errBuf == nil, buf.String() == out), "renderto-writes-what-render-returns")
	vfAssert(vfAnd(errPlain == nil, string(pw.got) == out), "renderto-writes-what-render-returns")
	vfAssert(vfAnd(errAuto == nil, viaAuto == out), "auto-agrees")
	vfAssert(vfAnd(errAutoTo == nil, string(pa.got) == out), "auto-agrees")
}

// VerifC10_styles: auto by style string agrees with configuring a text table by hand, also for
// application-registered decorations whose names extend one another with a dot.
func VerifC10_styles() {
	base := decoration.ASCIIBoxSimple()
	v2 := decoration.ASCIIBoxSimple()
	v2.TopLeft, v2.TopRight = "/", "\\"
	decoration.RegisterDecorationName("vfbox", base)
	decoration.RegisterDecorationName("vfbox.v2", v2)
	styles := []string{"vfbox", "vfbox.v2", "texttable.vfbox.v2", "vfbox.tuning", "texttable.vfbox.tuning", "utf8-light.x", "texttable.vfbox"}
	names := []string{"vfbox", "vfbox.v2", "vfbox.v2", "vfbox", "vfbox", "utf8-light", "vfbox"}
	k := vfChoice("style", len(styles))
	t := tabular.New()
	t.AddHeaders("h1", "h2")
	t.AddRowItems(vfString("a", 1, vfTXT), "x")
	viaAuto, errAuto := Render(t, styles[k])
	tt := texttable.Wrap(t)
	_, errSet := tt.SetDecorationNamed(names[k])
	want, errWant := tt.Render()
	vfAssert(vfAnd(errSet == nil, errWant == nil), "render-ok")
	vfAssert(vfAnd(errAuto == nil, viaAuto == want), "auto-agrees")
	vfObserveStr("out", viaAuto)
}

type vfLiveText struct{ s string }

func (x *vfLiveText) String() string { return x.s }

// a user callback that resolves a pending item before the cells are laid out
type vfResolveCB struct{ item *vfLiveText }

func (cb vfResolveCB) UpdateProperties(po tabular.PropertyOwner) error {
	if c, ok := po.(*tabular.Cell); ok {
		if c.Item() == interface{}(cb.item) {
			cb.item.s = "forty-two"
			c.Update()
		}
	}
	return nil
}

// VerifC10_live: (a) an item that changed after it was added, without anyone updating the cell, shows
// its old text in every format whatever created or wraps the table; (b) a pre-cell user callback that
// resolves an item and updates the cell is honoured alike by package functions, wrapper methods and auto.
func VerifC10_live() {
	format := vfChoice("format", 5)
	mk := func(create int) tabular.Table {
		switch create {
		case 1:
			return texttable.New()
		case 2:
			return markdown.New()
		case 3:
			return csv.New()
		}
		return tabular.New()
	}
	if vfChoice("scenario", 2) == 0 {
		ref := tabular.New()
		ref.AddHeaders("item", "n")
		ref.AddRowItems("7 in stock", 1)
		want, werr := vfRenderAs(ref, format)
		t := mk(vfChoice("create", 4))
		live := &vfLiveText{"7 in stock"}
		var w tabular.Table = t
		if vfChoice("wrap-before", 2) == 1 {
			w = vfWrapKind(w, []int{3, 0, 2}[vfChoice("wrap", 3)])
		}
		w.AddHeaders("item", "n")
		w.AddRowItems(live, 1)
		live.s = "12 in stock"
		if vfChoice("text-render-first", 2) == 1 {
			texttable.Render(w)
		}
		out, err := vfRenderAs(w, format)
		vfAssert(vfAnd(werr == nil, err == nil), "render-ok")
		vfAssert(out == want, "same-bytes-whatever-created-or-wraps-it")
		vfObserveStr("out", out)
		return
	}
	build := func() tabular.Table {
		t := mk(vfChoice("create", 4))
		pending := &vfLiveText{"?"}
		t.AddHeaders("k", "v")
		t.AddRowItems("answer", pending)
		vfAssert(t.RegisterPropertyCallback(t, tabular.CB_AT_RENDER_PRECELL, tabular.CB_ON_CELL, vfResolveCB{pending}) == nil, "register-ok")
		return t
	}
	// each way of rendering on a table of its own, built identically
	viaPkg, e1 := vfRenderAs(build(), format)
	viaWrap, e2 := vfKeep(build(), format).Render()
	style := []string{"csv", "json", "markdown", "texttable", "html"}[format]
	viaAuto, e3 := Render(build(), style)
	vfAssert(vfAnd(e1 == nil, vfAnd(e2 == nil, e3 == nil)), "render-ok")
	vfAssert(viaWrap == viaPkg, "wrapper-method-agrees")
	vfAssert(viaAuto == viaPkg, "auto-agrees")
	vfObserveStr("out", viaPkg)
}

// VerifC10_keptsettings: a wrapper object that is kept and rendered again after a column setting was
// changed or withdrawn agrees with the package function and a fresh wrapper (text and markdown).
func VerifC10_keptsettings() {
	t := tabular.New()
	t.AddHeaders("name", "n")
	t.AddRowItems("alpha", 1)
	t.AddRowItems("b", 22)
	format := 2 + vfChoice("format", 2) // markdown, text
	keep := vfKeep(t, format)
	col := vfChoice("col", 3)
	t.Column(col).SetProperty(align.PropertyType, []align.Alignment{align.Right, align.Center}[vfChoice("first", 2)])
	_, err0 := keep.Render()
	switch vfChoice("then", 3) {
	case 0:
		t.Column(col).SetProperty(align.PropertyType, nil)
	case 1:
		t.Column(col).SetProperty(align.PropertyType, align.Left)
	case 2:
		t.Column((col+1)%3).SetProperty(align.PropertyType, align.Center)
	}
	out, err := keep.Render()
	want, werr := vfRenderAs(t, format)
	fresh, ferr := vfKeep(t, format).Render()
	vfAssert(vfAnd(err0 == nil, vfAnd(err == nil, vfAnd(werr == nil, ferr == nil))), "render-ok")
	vfAssert(out == want, "kept-wrapper-agrees-after-change")
	vfAssert(fresh == want, "wrapper-method-agrees")
	vfObserveStr("out", out)
}

type vfPickyCB struct{ bad string }

type vfPickyErr struct{}

func (vfPickyErr) Error() string { return "picky: do not like this cell" }

func (p vfPickyCB) UpdateProperties(po tabular.PropertyOwner) error {
	if c, ok := po.(*tabular.Cell); ok && c.String() == p.bad {
		return vfPickyErr{}
	}
	return nil
}

// VerifC10_pickycallback: a user's render-time cell callback that objects to one cell (returns an
// error for it) changes nothing about the bytes, and does so alike whether it was registered before or
// after the table met its text renderer (created by texttable.New, or a core table wrapped later).
func VerifC10_pickycallback() {
	when := vfChoice("when", 3)
	fill := func(t tabular.Table) {
		t.AddHeaders("name", "value")
		t.AddRowItems("good", "1")
		t.AddRowItems("bad", "2")
	}
	plain := tabular.New()
	fill(plain)
	want, werr := texttable.Render(plain)
	var t tabular.Table
	if vfChoice("create", 2) == 0 {
		t = tabular.New()
	} else {
		t = texttable.New()
	}
	fill(t)
	var rerr error
	switch when {
	case 0:
		rerr = t.RegisterPropertyCallback(t, tabular.CB_AT_RENDER, tabular.CB_ON_CELL, vfPickyCB{"bad"})
	case 1:
		rerr = t.RegisterPropertyCallback(t, tabular.CB_AT_RENDER_PRECELL, tabular.CB_ON_CELL, vfPickyCB{"bad"})
	case 2:
		rerr = t.RegisterPropertyCallback(t, tabular.CB_AT_RENDER_POSTCELL, tabular.CB_ON_CELL, vfPickyCB{"bad"})
	}
	vfAssert(rerr == nil, "register-ok")
	var out string
	var err error
	if vfChoice("via", 2) == 0 {
		out, err = texttable.Render(t)
	} else {
		out, err = texttable.Wrap(t).Render()
	}
	vfAssert(vfAnd(werr == nil, err == nil), "render-ok")
	vfAssert(out == want, "same-bytes-whatever-created-or-wraps-it")
	vfObserveStr("out", out)
}

// VerifC10_twowrappers: two kept wrappers of one format around two different tables, rendered in turn:
// each shows its own table every time (nothing of a format's wrapper is shared between tables).
func VerifC10_twowrappers() {
	format := vfChoice("format", 5)
	t1 := tabular.New()
	t1.AddHeaders("k", "v")
	t1.AddRowItems("one", 1)
	t2 := tabular.New()
	t2.AddHeaders("k", "v")
	t2.AddRowItems("two", 2)
	t2.AddRowItems("three", 3)
	want1, e1 := vfRenderAs(t1, format)
	want2, e2 := vfRenderAs(t2, format)
	a, b := vfKeep(t1, format), vfKeep(t2, format)
	o1, e3 := a.Render()
	o2, e4 := b.Render()
	o3, e5 := a.Render()
	o4, e6 := b.Render()
	vfAssert(vfAnd(vfAnd(e1 == nil, e2 == nil), vfAnd(vfAnd(e3 == nil, e4 == nil), vfAnd(e5 == nil, e6 == nil))), "render-ok")
	vfAssert(vfAnd(o1 == want1, o3 == want1), "wrapper-method-agrees")
	vfAssert(vfAnd(o2 == want2, o4 == want2), "wrapper-method-agrees")
}
