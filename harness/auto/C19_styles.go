package auto

import (
	"go.pennock.tech/tabular"
	"go.pennock.tech/tabular/csv"
	"go.pennock.tech/tabular/html"
	"go.pennock.tech/tabular/json"
	"go.pennock.tech/tabular/markdown"
	"go.pennock.tech/tabular/texttable"
	"go.pennock.tech/tabular/texttable/decoration"
)

func vfSmall(t tabular.Table) {
	t.AddHeaders("h")
	t.AddRowItems("v")
}

func vfSmallTable() tabular.Table {
	t := tabular.New()
	vfSmall(t)
	return t
}

func vfHasDot(s string) bool {
	for i := 0; i < len(s); i++ {
		if s[i] == '.' {
			return true
		}
	}
	return false
}

// vfCI: s equals word ignoring ASCII case (non-forking condition)
func vfCI(s, word string) bool {
	if len(s) != len(word) {
		return false
	}
	ok := true
	for i := 0; i < len(word); i++ {
		ok = vfAnd(ok, vfOr(s[i] == word[i], s[i] == word[i]-32))
	}
	return ok
}

// vfDuplicates counts names that repeat an earlier one or a built-in/renderer name (concretely decided).
func vfDuplicates(names []string) int {
	known := []string{"csv", "html", "json", "markdown", "ascii-simple", "none", "utf8-double", "utf8-heavy", "utf8-light", "utf8-light-curved"}
	d := 0
	for _, n := range names {
		dup := false
		for _, k := range known {
			if n == k {
				dup = true
			}
		}
		if dup {
			d++
		} else {
			known = append(known, n)
		}
	}
	return d
}

var vfBuiltins = []string{"ascii-simple", "none", "utf8-double", "utf8-heavy", "utf8-light", "utf8-light-curved"}

// VerifC19_listing: every advertised style is accepted and renders; the listing is sorted and complete,
// also after the application registered further names (arbitrary ASCII strings of up to two bytes).
func VerifC19_listing() {
	nx := vfChoice("nextra", 2)
	if vfTier() == 1 {
		nx = vfChoice("nextra2", 3)
	}
	var extra []string
	for i := 0; i < nx; i++ {
		n := vfString(vfName("name", i), 2, vfASCII)
		d := decoration.ASCIIBoxSimple()
		decoration.RegisterDecorationName(n, d)
		extra = append(extra, n)
	}
	// further application names (concrete), so that the registry's own storage has been grown
	// (the last two differ from a renderer's name in letter case only: they are registered names all the
	// same and must be listed; as a style they select the renderer, which renders fine)
	nfix := vfChoice("nfixed", 9)
	fixedNames := []string{"zz-app", "zz-app.wide", "zz-app.wide.x", "zz-b", "zz-c", "zz-d", "Json", "HTML"}
	glyphs := []string{"1", "2", "3", "4", "5", "6", "7", "8"}
	for i := 0; i < nfix; i++ {
		decoration.RegisterDecorationName(fixedNames[i], vfFixedDeco(glyphs[i], i))
		extra = append(extra, fixedNames[i])
	}
	first := ListStyles()
	list := ListStyles()
	vfAssert(len(first) == len(list), "listing-repeatable")
	if len(first) == len(list) {
		for i := range list {
			vfAssert(first[i] == list[i], "listing-repeatable")
		}
	}
	vfAssert(len(list) == 10+len(extra)-vfDuplicates(extra), "listing-has-no-strangers")
	for i := 1; i < len(list); i++ {
		vfAssert(list[i-1] <= list[i], "listing-sorted")
	}
	has := func(n string) bool {
		found := false
		for _, l := range list {
			found = vfOr(found, l == n)
		}
		return found
	}
	for _, n := range []string{"csv", "html", "json", "markdown"} {
		vfAssert(has(n), "listing-includes-renderers")
	}
	for _, n := range vfBuiltins {
		vfAssert(has(n), "listing-includes-built-in-decorations")
	}
	for _, n := range extra {
		vfAssert(has(n), "listing-includes-registered-names")
	}
	for _, name := range list {
		dotted := vfHasDot(name)
		if dotted {
			vfTag("registered-name-with-dot")
		}
		w := New(name)
		vfSmall(w)
		out, err := w.Render()
		vfAssert(err == nil, "advertised-style-renders")
		if err == nil {
			vfAssert(out != "", "advertised-style-renders")
		}
		// an application-registered name selects the decoration registered under exactly that name
		for i := 0; i < nfix && i < 6; i++ {
			if name == fixedNames[i] {
				d := vfFixedDeco(glyphs[i], i)
				wantOut, _ := vfTextWith(d)
				vfAssert(out == wantOut, "listed-name-selects-its-own-decoration")
				prefix := []string{"texttable.", "TextTable.", "TEXTTABLE."}[vfChoice("prefix-case", 3)]
				out2, err2 := Render(vfSmallTable(), prefix+name)
				vfAssert(vfAnd(err2 == nil, out2 == wantOut), "name-and-texttable-dot-name-select-same-decoration")
			}
		}
	}
}

// vfFixedDeco is the decoration registered under the i-th application name; the fourth one is a
// complete set of drawing pieces in which the two fields that only serve Populate as defaults
// (Horizontal, Vertical) were left empty by its author.
func vfFixedDeco(glyph string, i int) decoration.Decoration {
	d := decoration.Decoration{Horizontal: "-", Vertical: "|", CrossPiece: glyph}
	d.Populate()
	if i == 3 {
		d.Horizontal, d.Vertical = "", ""
	}
	return d
}

func vfTextWith(d decoration.Decoration) (string, error) {
	tt := texttable.New()
	vfSmall(tt)
	tt.SetDecoration(d)
	return tt.Render()
}

// VerifC19_dispatch: an arbitrary style string of up to 8 (quick) / 10 (thorough) ASCII bytes resolves as documented.
func VerifC19_dispatch() {
	L := 8
	if vfTier() == 1 {
		L = 10
	}
	// one application-registered name, so that short strings can hit a decoration
	reg := vfString("reg", 1, vfASCII)
	custom := decoration.Decoration{Horizontal: "~", Vertical: "!", CrossPiece: "*"}
	custom.Populate()
	decoration.RegisterDecorationName(reg, custom)
	style := vfString("style", L, vfASCII)
	// first section
	end := len(style)
	for i := 0; i < len(style); i++ {
		if style[i] == '.' {
			end = i
			break
		}
	}
	sec0 := style[:end]
	rest := ""
	if end < len(style) {
		rest = style[end+1:]
	}
	sec1 := rest
	for i := 0; i < len(rest); i++ {
		if rest[i] == '.' {
			sec1 = rest[:i]
			break
		}
	}
	w := New(style)
	vfSmall(w)
	isCSV, isHTML, isJSON, isMD, isTT := vfCI(sec0, "csv"), vfCI(sec0, "html"), vfCI(sec0, "json"), vfCI(sec0, "markdown"), vfCI(sec0, "texttable")
	switch w.(type) {
	case *csv.CSVTable:
		vfAssert(isCSV, "csv-only-for-csv")
	case *html.HTMLTable:
		vfAssert(isHTML, "html-only-for-html")
	case *json.JSONTable:
		vfAssert(isJSON, "json-only-for-json")
	case *markdown.MarkdownTable:
		vfAssert(isMD, "markdown-only-for-markdown")
	case *texttable.TextTable:
		vfAssert(!vfOr(isCSV, vfOr(isHTML, vfOr(isJSON, isMD))), "renderer-name-selects-renderer-case-insensitively")
		out, err := w.Render()
		// which decoration the documentation promises: bare NAME and texttable.NAME select the
		// decoration registered as NAME (a registered name may contain dots); otherwise the first
		// section after the optional prefix decides; plain "texttable" is the default decoration
		var want decoration.Decoration
		known := true
		if isTT {
			if end == len(style) {
				want = decoration.UTF8BoxHeavy()
			} else {
				want = decoration.Named(rest)
				if want == decoration.EmptyDecoration {
					want = decoration.Named(sec1)
				}
				known = want != decoration.EmptyDecoration
			}
		} else {
			want = decoration.Named(style)
			if want == decoration.EmptyDecoration {
				want = decoration.Named(sec0)
			}
			known = want != decoration.EmptyDecoration
		}
		if known {
			wantOut, wantErr := vfTextWith(want)
			vfAssert(wantErr == nil, "known-decoration-renders")
			vfAssert(err == nil, "known-decoration-renders")
			vfAssert(out == wantOut, "name-and-texttable-dot-name-select-same-decoration")
		} else {
			vfAssert(err != nil, "unknown-name-fails-to-render")
			vfAssert(out == "", "unknown-name-fails-to-render")
		}
	default:
		vfFail("unexpected-renderer-type")
	}
}

// VerifC19_names: every listed name in every letter-case variant, with and without the "texttable."
// prefix and with an arbitrary trailing section.
func VerifC19_names() {
	names := []string{"csv", "json", "markdown", "html", "texttable", "none", "utf8-light", "ascii-simple"}
	k := vfChoice("name", len(names))
	base := names[k]
	// per-letter case flips as solver booleans (non-forking)
	bs := make([]byte, len(base))
	flipped := false
	for i := 0; i < len(base); i++ {
		c := base[i]
		if c >= 'a' && c <= 'z' {
			f := vfBool(vfName("flip", i))
			bs[i] = byte(vfIteInt(f, int(c)-32, int(c)))
			flipped = vfOr(flipped, f)
		} else {
			bs[i] = c
		}
	}
	style := string(bs)
	prefixed := false
	if vfChoice("prefix", 2) == 1 {
		style = "texttable." + style
		prefixed = true
	}
	tail := ""
	if vfChoice("tail", 2) == 1 {
		tail = "." + vfString("tailtext", 2, vfASCII)
		style += tail
	}
	w := New(style)
	vfSmall(w)
	if prefixed && k < 5 {
		// the first section selects the text renderer; what follows names a decoration, and no
		// decoration is registered under a renderer's name (in any letter case): rendering fails
		tt, ok := w.(*texttable.TextTable)
		vfAssert(ok, "texttable-prefix-selects-text-renderer")
		if ok {
			out, err := tt.Render()
			vfAssert(vfAnd(err != nil, out == ""), "unknown-name-fails-to-render")
		}
		return
	}
	switch k {
	case 0:
		_, ok := w.(*csv.CSVTable)
		vfAssert(ok, "renderer-name-selects-renderer-case-insensitively")
	case 1:
		_, ok := w.(*json.JSONTable)
		vfAssert(ok, "renderer-name-selects-renderer-case-insensitively")
	case 2:
		_, ok := w.(*markdown.MarkdownTable)
		vfAssert(ok, "renderer-name-selects-renderer-case-insensitively")
	case 3:
		_, ok := w.(*html.HTMLTable)
		vfAssert(ok, "renderer-name-selects-renderer-case-insensitively")
	default:
		tt, ok := w.(*texttable.TextTable)
		vfAssert(ok, "decoration-name-selects-text-renderer")
		if !ok {
			return
		}
		out, err := tt.Render()
		if k == 4 {
			if tail == "" {
				wantOut, _ := vfTextWith(decoration.UTF8BoxHeavy())
				vfAssert(vfAnd(err == nil, out == wantOut), "plain-texttable-selects-default-decoration")
			}
			if tail == "." {
				// "texttable." names the decoration registered under the empty name: there is none
				vfAssert(vfAnd(err != nil, out == ""), "unknown-name-fails-to-render")
			}
			return
		}
		_ = prefixed
		if flipped {
			// decoration names are case-sensitive: a case variant is an unknown name
			vfAssert(vfAnd(err != nil, out == ""), "unknown-name-fails-to-render")
		} else {
			wantOut, _ := vfTextWith(decoration.Named(base))
			vfAssert(vfAnd(err == nil, out == wantOut), "name-and-texttable-dot-name-select-same-decoration")
		}
	}
}

// VerifC19_history: style resolution follows the registry as it is now (an overwritten name selects
// the new decoration), and wrapping an already styled text table with plain "texttable" gives the default.
func VerifC19_history() {
	d1 := decoration.Decoration{Horizontal: "-", Vertical: "|", CrossPiece: "1"}
	d1.Populate()
	d2 := decoration.Decoration{Horizontal: "=", Vertical: "!", CrossPiece: "2"}
	d2.Populate()
	name := "hist" + vfString("suffix", 1, vfTXT)
	decoration.RegisterDecorationName(name, d1)
	out1, err1 := Render(vfSmallTable(), name)
	want1, _ := vfTextWith(d1)
	vfAssert(vfAnd(err1 == nil, out1 == want1), "registered-name-renders-its-decoration")
	decoration.RegisterDecorationName(name, d2)
	out2, err2 := Render(vfSmallTable(), name)
	want2, _ := vfTextWith(d2)
	vfAssert(vfAnd(err2 == nil, out2 == want2), "overwritten-name-renders-the-new-decoration")
	out3, err3 := Render(vfSmallTable(), "texttable."+name)
	vfAssert(vfAnd(err3 == nil, out3 == want2), "name-and-texttable-dot-name-select-same-decoration")
	// a styled text table wrapped again
	styled := New([]string{"ascii-simple", "none", name}[vfChoice("styled", 3)])
	vfSmall(styled)
	again := Wrap(styled, []string{"texttable", "TextTable"}[vfChoice("case", 2)])
	outA, errA := again.Render()
	wantA, _ := vfTextWith(decoration.UTF8BoxHeavy())
	vfAssert(vfAnd(errA == nil, outA == wantA), "plain-texttable-selects-default-decoration")
}

// VerifC19_foreign: style strings with characters that only look like, or case-fold onto, the letters of
// a renderer name (long s, full-width letters, a zero-width space, a Cyrillic letter) are unknown names: a text table that fails
// to render - unless the application registered a decoration under exactly that name.
func VerifC19_foreign() {
	// (not among them: the Kelvin sign, whose lower case is the letter k - "mar\u212adown" is markdown)
	styles := []string{"c\u017fv", "J\u017fON", "\uff43\uff53\uff56", "html\u200b", "te\u0445ttable"}
	k := vfChoice("style", len(styles))
	style := styles[k]
	registered := vfChoice("registered", 2) == 1
	d := decoration.ASCIIBoxSimple()
	d.CrossPiece = "%"
	if registered {
		decoration.RegisterDecorationName(style, d)
	}
	w := New(style)
	vfSmall(w)
	tt, ok := w.(*texttable.TextTable)
	vfAssert(ok, "unknown-name-is-a-text-table")
	if !ok {
		return
	}
	out, err := tt.Render()
	if registered {
		wantOut, _ := vfTextWith(d)
		vfAssert(vfAnd(err == nil, out == wantOut), "name-and-texttable-dot-name-select-same-decoration")
	} else {
		vfAssert(vfAnd(err != nil, out == ""), "unknown-name-fails-to-render")
	}
}
