package auto

import (
	"go.pennock.tech/tabular"
	"go.pennock.tech/tabular/csv"
	"go.pennock.tech/tabular/json"
	"go.pennock.tech/tabular/markdown"
	"go.pennock.tech/tabular/properties/align"
	"go.pennock.tech/tabular/texttable"
)

// VerifC09_total: every renderer is total on every table buildable through the public API.
func VerifC09_total() {
	K := 3
	if vfTier() == 1 {
		K = 4
	}
	t := tabular.New()
	nItem := 0
	item := func(name string) interface{} {
		nItem++
		if nItem > 1 {
			return "x"
		}
		texts := []string{"", "a", "a\nbc", "\n"}
		switch vfChoice(name+".kind", 4) {
		case 0:
			return ""
		case 3:
			vfTag("json-unencodable-item")
			return vfUnencodable{s: texts[vfChoice(name+".s", 4)]}
		case 1:
			return texts[1+vfChoice(name+".s", 3)]
		}
		vfTag("sized-item")
		return vfSizedItem{s: texts[vfChoice(name+".s", 4)], w: vfInt(name+".w", -1, 3), h: vfInt(name+".h", -1, 3)}
	}
	items := func(step int) []interface{} {
		n := vfChoice(vfName("n", step), 3)
		out := make([]interface{}, n)
		for i := range out {
			out[i] = item(vfName("it", step*4+i))
		}
		return out
	}
	steps := vfChoice("steps", K+1)
	for s := 0; s < steps; s++ {
		switch vfChoice(vfName("op", s), 5) {
		case 0:
			t.AddHeaders(items(s)...)
		case 1:
			t.AddRowItems(items(s)...)
		case 2:
			t.AddSeparator()
		case 3:
			t.AppendNewRow()
		case 4: // extend a row that is already attached (possibly a separator)
			rows := t.AllRows()
			if len(rows) == 0 {
				vfAssume(false)
			}
			r := rows[vfChoice(vfName("j", s), len(rows))]
			r.Add(tabular.NewCell(item(vfName("it", s*4))))
			vfTag("row-extended-after-attach")
		}
	}
	nd := 2
	if vfTier() == 1 {
		nd = 3
	}
	vfRenderAll(t, nd, true)
	vfAssert(true, "no-panic")
}

// VerifC09_shared: a row that was added to two tables and then extended.
func VerifC09_shared() {
	t1, t2 := tabular.New(), tabular.New()
	if vfChoice("hdr", 2) == 1 {
		t1.AddHeaders("h")
	}
	r := tabular.NewRow()
	n := vfChoice("cells", 3)
	for i := 0; i < n; i++ {
		r.Add(tabular.NewCell("c"))
	}
	t1.AddRow(r)
	t2.AddRow(r)
	m := 1 + vfChoice("more", 2)
	for i := 0; i < m; i++ {
		r.Add(tabular.NewCell("late"))
	}
	vfTag("row-in-two-tables")
	vfRenderAll(t1, 2, true)
	vfRenderAll(t2, 2, true)
	vfAssert(true, "shared-no-panic")
}

// VerifC09_kept: renderer objects that are kept, used, and used again after the table has grown.
func VerifC09_kept() {
	t := tabular.New()
	switch vfChoice("shape", 4) {
	case 1:
		t.AddHeaders("h")
	case 2:
		t.AddHeaders("h", "i")
		t.AddRowItems("a")
	case 3:
		t.AddRowItems("a", "b")
		t.AddSeparator()
	}
	kept := []RenderTable{Wrap(t, "texttable"), Wrap(t, "markdown"), Wrap(t, "csv"), Wrap(t, "json"), Wrap(t, "html"), Wrap(t, "none")}
	check := func() {
		for _, k := range kept {
			out, err := k.Render()
			if err != nil {
				vfAssert(out == "", "kept-error-means-no-text")
			}
		}
	}
	if vfChoice("kept-first", 2) == 1 {
		check()
	}
	switch vfChoice("grow", 4) {
	case 1:
		items := make([]interface{}, t.NColumns()+1)
		for i := range items {
			items[i] = "g"
		}
		t.AddRowItems(items...)
	case 2:
		r := t.AppendNewRow()
		n := t.NColumns() + 1
		for i := 0; i < n; i++ {
			r.Add(tabular.NewCell("g"))
		}
	case 3:
		t.AddHeaders("h", "i", "j")
	}
	check()
	check()
	vfAssert(true, "kept-no-panic")
}

// VerifC09_wide: tables that grow past the initial column capacity, by each way a table gets columns.
func VerifC09_wide() {
	n := 8 + vfChoice("n", 5)
	t := tabular.New()
	items := make([]interface{}, n)
	for i := range items {
		items[i] = "w"
	}
	switch vfChoice("how", 5) {
	case 0:
		t.AddHeaders(items...)
	case 1:
		t.AddRowItems(items...)
	case 2:
		r := t.AppendNewRow()
		for i := 0; i < n; i++ {
			r.Add(tabular.NewCell("w"))
		}
	case 3: // a header of two, then an attached row extended cell by cell
		t.AddHeaders("h", "i")
		t.AddRowItems("a")
		r := t.AllRows()[0]
		for i := 1; i < n; i++ {
			r.Add(tabular.NewCell("w"))
		}
	case 4: // headers and a row, both wide, and a narrow row
		t.AddHeaders(items...)
		t.AddRowItems(items...)
		t.AddRowItems("a")
	}
	vfTag("wide-table")
	vfAssert(t.NColumns() == n, "wide-column-count")
	vfRenderAll(t, 1, true)
	vfAssert(true, "wide-no-panic")
}

// VerifC09_content: every renderer is total on a cell and a header holding characters that one of
// the formats treats specially (quotes, commas, pipes, backslashes, markup, newlines).
func VerifC09_content() {
	L := 2 + vfTier()
	t := tabular.New()
	t.AddHeaders(vfStringOf("h", 1, "\"|<"), "k")
	t.AddRowItems(vfStringOf("c", L, "\"a,\n|<&\\"), "v")
	vfRenderAll(t, 1, true)
	vfAssert(true, "content-no-panic")
}

// VerifC09_orders: renderers are total whatever was rendered before on the same table (every ordered
// pair of formats, starting from a table no renderer has seen), also with a column aligned right or
// centre and an item that declares a width or height smaller than its text.
func VerifC09_orders() {
	t := tabular.New()
	if vfChoice("hdr", 2) == 1 {
		t.AddHeaders("h1", "h2")
	}
	switch vfChoice("item", 3) {
	case 0:
		t.AddRowItems("plain", "x")
	case 1:
		t.AddRowItems(vfSizedItem{s: "wide line\nb", w: vfChoice("w", 3), h: 1 + vfChoice("h", 3)}, "x")
		vfTag("sized-item")
	case 2:
		t.AddRowItems(vfSizedItem{s: "abc", w: 0, h: 0}, "x")
		vfTag("sized-item")
	}
	t.AddRowItems("second")
	switch vfChoice("align", 3) {
	case 1:
		t.Column(1).SetProperty(align.PropertyType, align.Right)
	case 2:
		t.Column(0).SetProperty(align.PropertyType, align.Center)
	}
	render := func(f int) {
		var out string
		var err error
		switch f {
		case 0:
			out, err = csv.Render(t)
		case 1:
			out, err = json.Render(t)
		case 2:
			out, err = markdown.Render(t)
		case 3:
			out, err = texttable.Render(t)
		case 4:
			out, err = Render(t, "html")
		case 5:
			out, err = Render(t, "none")
		}
		if err != nil {
			vfAssert(out == "", "orders-error-means-no-text")
		}
		vfObserveBool(vfName("err", f), err != nil)
	}
	render(vfChoice("first", 6))
	render(vfChoice("second", 6))
	vfAssert(true, "orders-no-panic")
}

type vfStopWriter struct {
	stopAt, calls int
	got           []byte
}

type vfStopErr struct{}

func (vfStopErr) Error() string { return "destination full" }

func (w *vfStopWriter) Write(p []byte) (int, error) {
	i := w.calls
	w.calls++
	if w.stopAt >= 0 && i >= w.stopAt {
		return 0, vfStopErr{}
	}
	w.got = append(w.got, p...)
	return len(p), nil
}

// VerifC09_destinations: "complete output or an error" also holds for RenderTo into a destination that
// stops accepting data at some write: no panic, and a nil result means the destination holds exactly
// what Render returns.
func VerifC09_destinations() {
	t := tabular.New()
	t.AddHeaders("h1", "h2")
	t.AddRowItems("a", "b")
	t.AddSeparator()
	t.AddRowItems("c")
	style := []string{"csv", "json", "markdown", "texttable", "html", "none"}[vfChoice("format", 6)]
	want, werr := Render(t, style)
	vfAssert(werr == nil, "destinations-render-ok")
	w := &vfStopWriter{stopAt: vfInt("k", -1, 6)}
	err := RenderTo(t, w, style)
	vfAssert(vfOr(err != nil, string(w.got) == want), "nil-result-means-complete-output")
	vfObserveBool("err", err != nil)
}

// VerifC09_longcells: cells and headers of 79..130 display cells (plain, double-width, or an item that
// only declares such a width): every renderer is total on columns wider than any fixed-size helper.
func VerifC09_longcells() {
	n := []int{79, 80, 81, 100, 130}[vfChoice("width", 5)]
	var item interface{}
	switch vfChoice("kind", 2) {
	case 0:
		b := make([]byte, n)
		for i := range b {
			b[i] = 'x'
		}
		item = string(b)
	case 1:
		s := ""
		for i := 0; i < (n+1)/2; i++ {
			s += "世"
		}
		item = s
	}
	t := tabular.New()
	if vfChoice("in-header", 2) == 1 {
		t.AddHeaders(item, "h")
		t.AddRowItems("a", "b")
	} else {
		t.AddHeaders("g", "h")
		t.AddRowItems("a", item)
	}
	vfRenderAll(t, 1, true)
	vfAssert(true, "long-cells-no-panic")
}
