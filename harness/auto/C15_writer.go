package auto

import (
	"errors"
	"io"

	"go.pennock.tech/tabular"
	"go.pennock.tech/tabular/csv"
	"go.pennock.tech/tabular/json"
	"go.pennock.tech/tabular/markdown"
	"go.pennock.tech/tabular/texttable"
)

var vfErrWrite = errors.New("scripted write failure")

// vfFailWriter fails at Write call number k: mode 0 keeps failing from k on, mode 1 fails only at k,
// mode 2 accepts a strict prefix of the data at k and reports an error.
type vfFailWriter struct {
	k, mode, partial int
	calls            int
	got              []byte
	err              error // the error value reported (vfErrWrite unless set)
}

func (w *vfFailWriter) failure() error {
	if w.err != nil {
		return w.err
	}
	return vfErrWrite
}

func (w *vfFailWriter) Write(p []byte) (int, error) {
	i := w.calls
	w.calls++
	fail := false
	if w.mode == 0 {
		fail = i >= w.k
	} else {
		fail = i == w.k
	}
	if fail {
		if w.mode == 2 && len(p) > 0 {
			// partial: 0..3 bytes accepted, or (4,5,6) all but one, all but two, half of the data
			n := w.partial
			switch w.partial {
			case 4:
				n = len(p) - 1
			case 5:
				n = len(p) - 2
			case 6:
				n = len(p) / 2
			}
			if n >= len(p) {
				n = len(p) - 1
			}
			if n < 0 {
				n = 0
			}
			w.got = append(w.got, p[:n]...)
			return n, w.failure()
		}
		return 0, w.failure()
	}
	w.got = append(w.got, p...)
	return len(p), nil
}

// vfWrapper returns a renderer object for format f that can be used for several renders.
func vfWrapper(t tabular.Table, f int) RenderTable {
	switch f {
	case 0:
		return csv.Wrap(t)
	case 1:
		return json.Wrap(t)
	case 2:
		return markdown.Wrap(t)
	case 3:
		return texttable.Wrap(t)
	case 5:
		return Wrap(t, "none") // boxless text: its rules are empty strings, still written
	}
	return Wrap(t, "html")
}

func vfRenderTo(t tabular.Table, f int, w *vfFailWriter) error {
	switch f {
	case 0:
		return csv.RenderTo(t, w)
	case 1:
		return json.RenderTo(t, w)
	case 2:
		return markdown.RenderTo(t, w)
	case 3:
		return texttable.RenderTo(t, w)
	case 5:
		return RenderTo(t, w, "none")
	}
	return RenderTo(t, w, "html")
}

// VerifC15_writer: for every renderer and every index of a Write call at which the destination fails,
// RenderTo returns an error without panicking and the accepted bytes are a prefix of the fault-free output.
func VerifC15_writer() {
	t := tabular.New()
	t.AddHeaders("h", vfString("a", 1, vfTXT))
	t.AddRowItems(vfString("b", 1, vfTXT), "x")
	t.AddSeparator()
	t.AddRowItems("r")
	t.AddSeparator() // and one after the last row
	nf := 6
	f := vfChoice("format", nf)
	clean := &vfFailWriter{k: -1, mode: 1}
	err0 := vfRenderTo(t, f, clean)
	if err0 != nil {
		// eg JSON refuses an empty header text: nothing to inject a fault into
		vfAssert(f == 1, "fault-free-render-ok")
		return
	}
	W := clean.calls
	F := clean.got
	vfObserveInt("writes", W)
	if W == 0 {
		return
	}
	w := &vfFailWriter{k: vfInt("k", 0, 40), mode: vfChoice("mode", 3)}
	if w.mode == 2 {
		w.partial = vfChoice("partial", 7)
	}
	// the writer's error may be any value, also one that means something else elsewhere (io.EOF is
	// what a closed network channel reports)
	if vfChoice("error-value", 2) == 1 {
		w.err = io.EOF
		vfTag("writer-reports-io-EOF")
	}
	vfAssume(w.k < W)
	if w.mode == 1 {
		vfTag("fails-once")
	}
	err := vfRenderTo(t, f, w)
	vfObserveBool("err", err != nil)
	vfObserveInt("accepted", len(w.got))
	vfAssert(err != nil, "failure-surfaces-as-error")
	vfAssert(len(w.got) <= len(F), "accepted-bytes-are-a-prefix")
	if len(w.got) <= len(F) {
		for i := range w.got {
			vfAssert(w.got[i] == F[i], "accepted-bytes-are-a-prefix")
		}
	}
}

// VerifC15_recover: one renderer object used for a failing render and then for a healthy one: the
// failure leaves nothing behind - the second output is exactly the fault-free output.
func VerifC15_recover() {
	t := tabular.New()
	t.AddHeaders("h", "i")
	t.AddRowItems(vfString("b", 1, vfTXT), "x")
	t.AddSeparator()
	t.AddRowItems("r")
	t.AddSeparator()
	f := vfChoice("format", 6)
	clean := &vfFailWriter{k: -1, mode: 1}
	if vfRenderTo(t, f, clean) != nil {
		vfFail("fault-free-render-ok")
		return
	}
	W := clean.calls
	rt := vfWrapper(t, f)
	if vfChoice("rendered-before", 2) == 1 {
		// the renderer object has already been used successfully once
		first := &vfFailWriter{k: -1, mode: 1}
		vfAssert(rt.RenderTo(first) == nil, "fault-free-render-ok")
		vfTag("wrapper-rendered-before-the-failure")
	}
	bad := &vfFailWriter{k: vfInt("k", 0, 40), mode: vfChoice("mode", 3)}
	if bad.mode == 2 {
		bad.partial = vfChoice("partial", 7)
	}
	vfAssume(bad.k < W)
	err := rt.RenderTo(bad)
	vfAssert(err != nil, "failure-surfaces-as-error")
	vfAssert(len(bad.got) <= len(clean.got), "accepted-bytes-are-a-prefix")
	if len(bad.got) <= len(clean.got) {
		for i := range bad.got {
			vfAssert(bad.got[i] == clean.got[i], "accepted-bytes-are-a-prefix")
		}
	}
	good := &vfFailWriter{k: -1, mode: 1}
	err2 := rt.RenderTo(good)
	vfAssert(err2 == nil, "render-after-failure-ok")
	vfAssert(len(good.got) == len(clean.got), "render-after-failure-is-the-fault-free-output")
	if len(good.got) == len(clean.got) {
		for i := range good.got {
			vfAssert(good.got[i] == clean.got[i], "render-after-failure-is-the-fault-free-output")
		}
	}
	s, err3 := rt.Render()
	vfAssert(vfAnd(err3 == nil, s == string(clean.got)), "render-returns-what-renderto-writes")
}

// VerifC15_ragged: a three-column table with a row two cells short and a row without cells: every
// padding write and the write of an empty record can be the one that fails (once, or from there on).
func VerifC15_ragged() {
	t := tabular.New()
	t.AddHeaders("h", "i", "j")
	t.AddRowItems("a", "b", "c")
	t.AddRowItems("r")
	t.AddRow(tabular.NewRow())
	t.AddRowItems("s", "t")
	f := vfChoice("format", 6)
	clean := &vfFailWriter{k: -1, mode: 1}
	if vfRenderTo(t, f, clean) != nil {
		vfFail("fault-free-render-ok")
		return
	}
	W := clean.calls
	F := clean.got
	if W == 0 {
		return
	}
	w := &vfFailWriter{k: vfInt("k", 0, 80), mode: vfChoice("mode", 2)}
	vfAssume(w.k < W)
	if w.mode == 1 {
		vfTag("fails-once")
	}
	err := vfRenderTo(t, f, w)
	vfObserveBool("err", err != nil)
	vfObserveInt("accepted", len(w.got))
	vfAssert(err != nil, "failure-surfaces-as-error")
	vfAssert(len(w.got) <= len(F), "accepted-bytes-are-a-prefix")
	if len(w.got) <= len(F) {
		for i := range w.got {
			vfAssert(w.got[i] == F[i], "accepted-bytes-are-a-prefix")
		}
	}
}
