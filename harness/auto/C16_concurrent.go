package auto

import (
	"go.pennock.tech/tabular"
	"go.pennock.tech/tabular/csv"
	"go.pennock.tech/tabular/json"
	"go.pennock.tech/tabular/markdown"
	"go.pennock.tech/tabular/texttable"
)

func vfBuildAndRender(create, format int, a string) (string, bool) {
	var t tabular.Table
	switch create {
	case 0:
		t = tabular.New()
	case 1:
		t = csv.New()
	case 2:
		t = texttable.New()
	case 3:
		t = markdown.New()
	}
	t.AddHeaders("h1", "h2")
	t.AddRowItems(a, "x")
	t.AddSeparator()
	t.AddRowItems("y")
	var out string
	var err error
	switch format {
	case 0:
		out, err = csv.Render(t)
	case 1:
		out, err = json.Render(t)
	case 2:
		out, err = markdown.Render(t)
	case 3:
		out, err = texttable.Render(t)
	case 4:
		out, err = Render(t, "utf8-light")
	case 5:
		out, err = Render(t, "none")
	case 6:
		out, err = Render(t, "html")
	}
	return out, err != nil
}

// VerifC16_independent: goroutines that each own their table and wrappers, in any formats and
// decorations, with the registry being read concurrently: no data race, and each output equals
// what the same table produces alone.
func VerifC16_independent() {
	a1 := vfString("a1", 1, vfTXT)
	a2 := vfString("a2", 1, vfTXT)
	nc := 2
	if vfTier() == 1 {
		nc = 4
	}
	c1, f1 := vfChoice("create1", nc)*(5-nc), vfChoice("format1", 7)
	c2, f2 := 0, vfChoice("format2", 7)
	if vfTier() == 1 {
		c2 = vfChoice("create2", 4)
	}
	var o1, o2 string
	var e1, e2 bool
	var styles []string
	bodies := []func(){
		func() { o1, e1 = vfBuildAndRender(c1, f1, a1) },
		func() { o2, e2 = vfBuildAndRender(c2, f2, a2) },
		func() { styles = ListStyles() },
	}
	nb := 2
	if vfTier() == 1 || vfChoice("third", 2) == 1 {
		nb = 3
	}
	vfPar(bodies[:nb]...)
	s1, se1 := vfBuildAndRender(c1, f1, a1)
	s2, se2 := vfBuildAndRender(c2, f2, a2)
	vfAssert(vfAnd(o1 == s1, e1 == se1), "output-equals-solo-output")
	vfAssert(vfAnd(o2 == s2, e2 == se2), "output-equals-solo-output")
	if nb == 3 {
		vfAssert(len(styles) >= 10, "registry-read-concurrently")
	}
	vfObserveStr("o1", o1)
	vfObserveStr("o2", o2)
}
