package auto

import (
	"go.pennock.tech/tabular"
	"go.pennock.tech/tabular/csv"
	"go.pennock.tech/tabular/html"
	"go.pennock.tech/tabular/json"
	"go.pennock.tech/tabular/markdown"
	"go.pennock.tech/tabular/properties/align"
	"go.pennock.tech/tabular/texttable"
	"go.pennock.tech/tabular/texttable/decoration"
)

const vfWide = "0123456789012345678901234567890123456789012345678901234567890123456789012345678901234567890"

// vfScenario builds a small table through one creation path and renders it in one format:
// 0 core+csv, 1 csv.New+json, 2 texttable.New+markdown, 3 markdown.New+text, 4 auto utf8-light,
// 5 auto none, 6 auto html, 7 html wrapper with a named template, 8 text table with a very wide column,
// 9 json of a table holding an item json cannot encode (fails part-way), 10 text table with non-ASCII text,
// 11 text table with a decoration looked up in the registry and then customised by its owner (a '~' rule),
// 12 text table with that same registered decoration as it is, 13 text table whose owner registers its
// own decoration under a name at run time and then selects it by that name, 14 and 15 a table annotated
// by its owner with properties under keys of the owner's own non-pointer types (a string type, a struct),
// 16 a markdown table with a default alignment on column 0, 17 a text table asked for a decoration name in
// the wrong letter case
type vfOwnStrKey string

type vfOwnStructKey struct{ a, b int }

func vfScenario(sc int, a string) (string, bool) {
	var t tabular.Table
	switch sc {
	case 1:
		t = csv.New()
	case 2:
		t = texttable.New()
	case 3:
		t = markdown.New()
	default:
		t = tabular.New()
	}
	t.AddHeaders("h1", "h2")
	if sc == 14 {
		t.SetProperty(vfOwnStrKey("colour"), "red")
		t.Column(1).SetProperty(vfOwnStrKey("unit"), "kg")
	}
	if sc == 15 {
		t.SetProperty(vfOwnStructKey{1, 2}, true)
		t.Column(1).SetProperty(vfOwnStructKey{3, 4}, false)
	}
	if sc == 16 {
		// a markdown table whose only alignment is the default on column 0
		t.Column(0).SetProperty(align.PropertyType, align.Right)
	}
	if sc == 8 {
		t.AddRowItems(vfWide, "w")
	}
	t.AddRowItems(a, "x")
	t.AddSeparator()
	t.AddRowItems("y")
	if sc == 9 {
		t.AddRowItems(vfUnencodable{s: "bad"})
	}
	if sc == 10 {
		t.AddRowItems("世界", "é")
	}
	var out string
	var err error
	switch sc {
	case 0:
		out, err = csv.Render(t)
	case 1, 9:
		out, err = json.Render(t)
	case 2, 16:
		out, err = markdown.Render(t)
	case 17: // a decoration name in another letter case than the registered one: unknown, refused
		tt := texttable.Wrap(t)
		tt.SetDecorationNamed("UTF8-Light")
		out, err = tt.Render()
	case 3, 8, 10, 14, 15:
		out, err = texttable.Render(t)
	case 11:
		d := decoration.Named(decoration.D_UTF8_LIGHT)
		d.HRule = "~"
		tt := texttable.Wrap(t)
		tt.SetDecoration(d)
		out, err = tt.Render()
	case 12:
		tt := texttable.Wrap(t)
		tt.SetDecorationNamed(decoration.D_UTF8_LIGHT)
		out, err = tt.Render()
	case 13:
		d := decoration.ASCIIBoxSimple()
		d.CrossPiece = "#"
		name := vfFresh("vf-own-decoration")
		decoration.RegisterDecorationName(name, d)
		tt := texttable.Wrap(t)
		tt.SetDecorationNamed(name)
		out, err = tt.Render()
	case 4:
		out, err = Render(t, "utf8-light")
	case 5:
		out, err = Render(t, "none")
	case 6:
		out, err = Render(t, "html")
	case 7:
		ht := html.Wrap(t)
		ht.TemplateName = "shared-name"
		out, err = ht.Render()
	}
	return out, err != nil
}

// VerifC16_independent: goroutines that each own their table and wrappers, in any formats and
// decorations, with the registry being read concurrently: no data race, and each output equals
// what the same table produces alone. Schedules are explored at synchronisation points.
func VerifC16_independent() {
	a1 := vfString("a1", 1, vfTXT)
	a2 := vfString("a2", 1, vfTXT)
	s1 := vfChoice("scenario1", 18)
	s2 := 0
	if vfTier() == 1 {
		s2 = vfChoice("scenario2", 18)
	} else {
		s2 = []int{3, 6, 7, 8, 1, 12, 0, 15, 2}[vfChoice("scenario2", 9)]
	}
	var o1, o2 string
	var e1, e2 bool
	var styles []string
	bodies := []func(){
		func() { o1, e1 = vfScenario(s1, a1) },
		func() { o2, e2 = vfScenario(s2, a2) },
		func() { styles = ListStyles() },
	}
	nb := 2
	if vfTier() == 1 || (s2 == 3 && vfChoice("third", 2) == 1) {
		nb = 3 // (quick: the registry reader joins only next to the markdown.New+text scenario)
	}
	vfPar(bodies[:nb]...)
	w1, we1 := vfScenario(s1, a1)
	w2, we2 := vfScenario(s2, a2)
	vfAssert(vfAnd(o1 == w1, e1 == we1), "output-equals-solo-output")
	vfAssert(vfAnd(o2 == w2, e2 == we2), "output-equals-solo-output")
	// an owner's customisation of its copy of a registered decoration stays with that owner
	for _, p := range []struct {
		sc  int
		out string
	}{{s1, o1}, {s2, o2}, {s1, w1}, {s2, w2}} {
		if p.sc == 11 || p.sc == 12 {
			tilde := false
			for i := 1; i < len(p.out); i++ {
				tilde = vfOr(tilde, vfAnd(p.out[i] == '~', p.out[i-1] == '~'))
			}
			vfAssert(tilde == (p.sc == 11), "owners-decoration-customisation-stays-with-its-owner")
		}
	}
	if nb == 3 {
		vfAssert(len(styles) >= 10, "registry-read-concurrently")
	}
}

// VerifC16_listers: several goroutines list the styles (read the registry) while another renders a
// text table by decoration name; nobody writes shared state, whatever was listed before.
func VerifC16_listers() {
	var l1, l2 []string
	var out string
	var failed bool
	warm := vfChoice("warm", 2) == 1
	if warm {
		ListStyles() // a listing before the goroutines start
	}
	bodies := []func(){
		func() { l1 = ListStyles() },
		func() { l2 = ListStyles() },
		func() { out, failed = vfScenario(4, "x") },
	}
	nb := 2 + vfChoice("third", 2)
	vfPar(bodies[:nb]...)
	vfAssert(len(l1) == len(l2), "concurrent-listings-agree")
	if len(l1) == len(l2) {
		for i := range l1 {
			vfAssert(l1[i] == l2[i], "concurrent-listings-agree")
		}
	}
	vfAssert(len(l1) >= 10, "registry-read-concurrently")
	if nb == 3 {
		w, wf := vfScenario(4, "x")
		vfAssert(vfAnd(out == w, failed == wf), "output-equals-solo-output")
	}
}

// VerifC16_copies: tables cut from an already rendered master table by copying its cells (cells are
// values) are independent tables: rendering them from different goroutines is race-free and each output
// is what that table gives alone.
func VerifC16_copies() {
	master := tabular.New()
	master.AddHeaders("h1", "h2")
	master.AddRowItems("first", "x")
	master.AddRowItems("second\nline", "y")
	if vfChoice("master-rendered", 2) == 1 {
		texttable.Render(master)
		markdown.Render(master)
	}
	cut := func(rowIdx int) tabular.Table {
		t := tabular.New()
		t.AddHeaders("k1", "k2")
		r := tabular.NewRow()
		for _, c := range master.AllRows()[rowIdx].Cells() {
			r.Add(c)
		}
		t.AddRow(r)
		return t
	}
	t1 := cut(vfChoice("row1", 2))
	t2 := cut(vfChoice("row2", 2))
	f1, f2 := vfChoice("format1", 2), vfChoice("format2", 2)
	render := func(t tabular.Table, f int) (string, bool) {
		if f == 0 {
			out, err := texttable.Render(t)
			return out, err != nil
		}
		out, err := markdown.Render(t)
		return out, err != nil
	}
	var o1, o2 string
	var e1, e2 bool
	vfPar(
		func() { o1, e1 = render(t1, f1) },
		func() { o2, e2 = render(t2, f2) },
	)
	w1, we1 := render(t1, f1)
	w2, we2 := render(t2, f2)
	vfAssert(vfAnd(o1 == w1, e1 == we1), "output-equals-solo-output")
	vfAssert(vfAnd(o2 == w2, e2 == we2), "output-equals-solo-output")
	vfAssert(vfAnd(!e1, !e2), "render-ok")
}
