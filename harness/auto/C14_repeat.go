package auto

import (
	"errors"

	"go.pennock.tech/tabular"
	"go.pennock.tech/tabular/csv"
	"go.pennock.tech/tabular/json"
	"go.pennock.tech/tabular/markdown"
	"go.pennock.tech/tabular/properties"
	"go.pennock.tech/tabular/properties/align"
	"go.pennock.tech/tabular/texttable"
	"go.pennock.tech/tabular/texttable/decoration"
)

type vfUserKey struct{ n int }

type vfMutableItem struct{ s string }

func (m *vfMutableItem) String() string { return m.s }

// an application-made decoration and one derived from it by copying and changing the corners come
// first (they share whatever a struct copy shares), then registered ones
var vfC14Decos = []string{"<custom>", "<derived>", "utf8-heavy", "none", "utf8-light", "utf8-light-curved", "ascii-simple", "utf8-double"}

var vfCustomBase = decoration.ASCIIBoxSimple()

func vfCustomDerived() decoration.Decoration {
	d := vfCustomBase
	d.TopLeft, d.TopRight, d.BottomLeft, d.BottomRight = "/", "\\", "\\", "/"
	return d
}

type vfSnap struct {
	nrows, ncols int
	texts        []string
	rows, cols   []int
	props        []interface{}
	nerr         int
}

func vfSnapshot(t tabular.Table, key *vfUserKey) vfSnap {
	s := vfSnap{nrows: t.NRows(), ncols: t.NColumns(), nerr: len(t.Errors())}
	for _, h := range t.Headers() {
		s.texts = append(s.texts, h.String())
	}
	for _, r := range t.AllRows() {
		s.props = append(s.props, r.GetProperty(key))
		for i := range r.Cells() {
			c := &r.Cells()[i]
			s.texts = append(s.texts, c.String())
			loc := c.Location()
			s.rows = append(s.rows, loc.Row)
			s.cols = append(s.cols, loc.Column)
			s.props = append(s.props, c.GetProperty(key))
		}
	}
	s.props = append(s.props, t.GetProperty(key))
	for i := 0; i <= t.NColumns(); i++ {
		s.props = append(s.props, t.Column(i).GetProperty(key))
		// the well-known keys renderers consult are user-visible state too
		s.props = append(s.props, t.Column(i).GetProperty(align.PropertyType))
		s.props = append(s.props, t.Column(i).GetProperty(properties.Skipable))
	}
	return s
}

func vfSameSnap(a, b vfSnap) {
	vfAssert(a.nrows == b.nrows, "row-count-unchanged")
	vfAssert(a.ncols == b.ncols, "column-count-unchanged")
	vfAssert(a.nerr == b.nerr, "error-list-unchanged")
	vfAssert(len(a.texts) == len(b.texts), "cells-unchanged")
	for i := range a.texts {
		if i < len(b.texts) {
			vfAssert(a.texts[i] == b.texts[i], "cell-text-unchanged")
		}
	}
	for i := range a.rows {
		if i < len(b.rows) {
			vfAssert(vfAnd(a.rows[i] == b.rows[i], a.cols[i] == b.cols[i]), "cell-location-unchanged")
		}
	}
	vfAssert(len(a.props) == len(b.props), "owners-unchanged")
	for i := range a.props {
		if i < len(b.props) {
			vfAssert(a.props[i] == b.props[i], "user-properties-unchanged")
		}
	}
}

// vfRenderers keeps one renderer object per format for a table, created on first use and reused for
// every later render (odd formats) or created afresh each time (even formats).
type vfRenderers struct {
	t    tabular.Table
	kept map[int]RenderTable
}

func (r *vfRenderers) render(f int) (string, error) {
	mk := func() RenderTable {
		switch f {
		case 0:
			return csv.Wrap(r.t)
		case 1:
			return json.Wrap(r.t)
		case 2:
			return markdown.Wrap(r.t)
		case 3:
			return Wrap(r.t, "html")
		}
		tt := texttable.Wrap(r.t)
		switch f - 4 {
		case 0:
			tt.SetDecoration(vfCustomBase)
		case 1:
			tt.SetDecoration(vfCustomDerived())
		default:
			tt.SetDecorationNamed(vfC14Decos[f-4])
		}
		return tt
	}
	if f%2 == 0 {
		return mk().Render()
	}
	if r.kept == nil {
		r.kept = map[int]RenderTable{}
	}
	if r.kept[f] == nil {
		r.kept[f] = mk()
	}
	return r.kept[f].Render()
}

// VerifC14_repeat: rendering in any order of formats and decorations yields, per format, the bytes
// of the first time, and leaves the observable table state unchanged.
func VerifC14_repeat() {
	maxLen := 2 // (three renders over all twelve formats did not finish in half an hour: the thorough tier widens the formats, not the length)
	key := &vfUserKey{1}
	t := tabular.New()
	t.AddHeaders("h1", "h2")
	t.AddRowItems(vfString("a", 2, vfLINE), "x")
	t.AddSeparator()
	t.AddRowItems(vfString("b", 1, vfLINE))
	stale := &vfMutableItem{"snapshot"}
	t.AddRowItems(stale, tabular.Cell{})
	stale.s = "changed-without-update"
	t.SetProperty(key, 1)
	t.Column(0).SetProperty(key, 2)
	t.Column(2).SetProperty(key, 3)
	t.AllRows()[0].SetProperty(key, 4)
	c, _ := t.CellAt(tabular.CellLocation{Row: 1, Column: 1})
	c.SetProperty(key, 5)
	t.Column(0).SetProperty(align.PropertyType, align.Right)
	before := vfSnapshot(t, key)
	nf := 4 + 2 // csv, json, markdown, html, two decorations (quick)
	if vfTier() == 1 {
		nf = 4 + len(vfC14Decos)
	}
	first := make([]string, nf)
	firstErr := make([]bool, nf)
	seen := make([]bool, nf)
	// a second, different table rendered in between must not influence the first one's output
	other := tabular.New()
	other.AddHeaders("other")
	other.AddRowItems("zzz")
	other.AddRowItems("yyy")
	// its JSON rendering fails after output has begun
	other.AddRowItems(vfUnencodable{s: "bad"})

	rs, ro := &vfRenderers{t: t}, &vfRenderers{t: other}
	late := &vfUserKey{2}
	n := 1 + vfChoice("n", maxLen)
	for i := 0; i < n; i++ {
		f := vfChoice(vfName("f", i), nf)
		if i >= 1 {
			ro.render(f)
			ro.render(3)
		}
		if i == 1 && vfChoice("late-property", 2) == 1 {
			// a user property set on a cell after it has been rendered (ie on top of the renderers' own)
			c.SetProperty(late, 6)
			before = vfSnapshot(t, key)
			vfAssert(c.GetProperty(late) == 6, "late-property-set")
			vfTag("property-set-between-renders")
		}
		out, err := rs.render(f)
		if i >= 1 && vfChoice("late-property", 2) == 1 {
			vfAssert(c.GetProperty(late) == 6, "user-properties-unchanged")
		}
		if seen[f] {
			vfAssert(out == first[f], "same-bytes-as-first-render")
			vfAssert((err != nil) == firstErr[f], "same-error-status-as-first-render")
		} else {
			seen[f], first[f], firstErr[f] = true, out, err != nil
		}
		vfObserveStr(vfName("out", i), out)
		vfSameSnap(before, vfSnapshot(t, key))
	}
	// and once more every format already rendered
	for f := 0; f < nf; f++ {
		if seen[f] {
			out, _ := rs.render(f)
			vfAssert(out == first[f], "same-bytes-as-first-render")
		}
	}
	vfSameSnap(before, vfSnapshot(t, key))
}

// VerifC14_environment: the same holds in every environment go-runewidth distinguishes (its
// East-Asian-width rule is chosen from the locale before the program starts) and for text whose width
// depends on that rule: rendering one format never changes how another format measures afterwards.
func VerifC14_environment() {
	vfRunewidthEastAsian(vfBool("env.eastasian"))
	t := tabular.New()
	t.AddHeaders("what", "value")
	t.AddRowItems("tolerance", "±1 °C")
	t.AddRowItems("αβ", "x")
	rs := &vfRenderers{t: t}
	// markdown, text utf8-light-curved (a kept renderer object), csv, html (kept), text utf8-light (a fresh one each time)
	fmts := []int{2, 4 + 5, 0, 3, 4 + 4}
	a := fmts[vfChoice("first", 3)]
	b := fmts[vfChoice("between", len(fmts))]
	key := &vfUserKey{9}
	before := vfSnapshot(t, key)
	out1, err1 := rs.render(a)
	rs.render(b)
	out2, err2 := rs.render(a)
	vfAssert(vfAnd(err1 == nil, err2 == nil), "render-ok")
	vfAssert(out1 == out2, "same-bytes-as-first-render")
	vfSameSnap(before, vfSnapshot(t, key))
	vfObserveStr("out", out1)
}

// VerifC14_sharedrow: a row object listed in two tables; rendering either table, in any format,
// leaves what both tables report (counts, texts, locations, properties) unchanged.
func VerifC14_sharedrow() {
	key := &vfUserKey{7}
	t1, t2 := tabular.New(), tabular.New()
	t1.AddHeaders("h1", "h2")
	t2.AddHeaders("k1", "k2")
	r := tabular.NewRow()
	r.Add(tabular.NewCell("s1")).Add(tabular.NewCell("s2"))
	if vfChoice("order", 2) == 0 {
		t1.AddRowItems("a", "b")
		t1.AddRow(r)
		t2.AddRow(r)
	} else {
		t2.AddRow(r)
		t1.AddRowItems("a", "b")
		t1.AddRow(r)
	}
	r.SetProperty(key, 1)
	b1, b2 := vfSnapshot(t1, key), vfSnapshot(t2, key)
	which := vfChoice("render", 2)
	f := vfChoice("format", 6)
	var out string
	var err error
	if which == 0 {
		out, err = (&vfRenderers{t: t1}).render(f)
	} else {
		out, err = (&vfRenderers{t: t2}).render(f)
	}
	vfAssert(err == nil, "render-ok")
	vfSameSnap(b1, vfSnapshot(t1, key))
	vfSameSnap(b2, vfSnapshot(t2, key))
	vfObserveStr("out", out)
}

// VerifC14_between: what the caller does to the table between two renders stays done: an error
// recorded (directly, or by misusing a separator row) after a first render is still listed after the
// next render, in any pair of formats - among them the boxless text decoration, which draws no rules
// for the table's separator rows.
func VerifC14_between() {
	key := &vfUserKey{11}
	t := tabular.New()
	// (one header cell may be empty: JSON refuses such a table - and must leave it as it is)
	h2 := []interface{}{"h2", ""}[vfChoice("second-header", 2)]
	t.AddHeaders("h1", h2)
	t.AddRowItems("a", "b")
	t.AddSeparator()
	t.AddRowItems("c", "d")
	t.AddRowItems("e")
	fmts := []int{0, 2, 3, 4 + 3, 4 + 2, 1} // csv, markdown, html, text none (kept object), text utf8-heavy (fresh), json
	f1 := fmts[vfChoice("first", len(fmts))]
	f2 := fmts[vfChoice("second", len(fmts))]
	rs := &vfRenderers{t: t}
	before := vfSnapshot(t, key)
	out1, err1 := rs.render(f1)
	vfAssert(vfOr(err1 == nil, f1 == 1), "render-ok")
	vfSameSnap(before, vfSnapshot(t, key))
	switch vfChoice("between", 3) {
	case 1:
		t.AddError(errors.New("recorded between renders"))
		vfTag("error-recorded-between-renders")
	case 2:
		t.AllRows()[1].Add(tabular.NewCell("z")) // a cell for a separator row: refused, and recorded
		vfTag("error-recorded-between-renders")
	}
	mid := vfSnapshot(t, key)
	_, err2 := rs.render(f2)
	vfAssert(vfOr(err2 == nil, f2 == 1), "render-ok")
	vfSameSnap(mid, vfSnapshot(t, key))
	again, err3 := rs.render(f1)
	vfAssert(vfAnd((err3 == nil) == (err1 == nil), again == out1), "same-bytes-as-first-render")
	vfSameSnap(mid, vfSnapshot(t, key))
	vfObserveStr("out", out1)
}
