package json

import (
	"errors"
	"strconv"

	"go.pennock.tech/tabular"
	"go.pennock.tech/tabular/properties"
)

type vfOtherKey struct{ n int }

type vfVal struct {
	kind int // 0 string, 1 number, 2 true, 3 false, 4 null, 5 empty object
	s    string
}

type vfObj struct {
	keys []string
	vals []vfVal
}

type vfParser struct {
	s  string
	i  int
	ok bool
}

func (p *vfParser) ws() {
	for p.i < len(p.s) {
		c := p.s[p.i]
		if c == ' ' {
			p.i++
			continue
		}
		if c == '\n' {
			p.i++
			continue
		}
		if c == '\t' {
			p.i++
			continue
		}
		if c == '\r' {
			p.i++
			continue
		}
		return
	}
}

func (p *vfParser) eat(c byte) bool {
	if p.i < len(p.s) {
		if p.s[p.i] == c {
			p.i++
			return true
		}
	}
	return false
}

func vfHex(c byte) (int, bool) {
	if c >= '0' {
		if c <= '9' {
			return int(c - '0'), true
		}
	}
	if c >= 'a' {
		if c <= 'f' {
			return int(c-'a') + 10, true
		}
	}
	if c >= 'A' {
		if c <= 'F' {
			return int(c-'A') + 10, true
		}
	}
	return 0, false
}

// str parses a JSON string (ASCII subset; \uXXXX only below 0x80), strictly.
func (p *vfParser) str() (string, bool) {
	if !p.eat('"') {
		return "", false
	}
	out := make([]byte, 0, 8)
	for {
		if p.i >= len(p.s) {
			return "", false
		}
		c := p.s[p.i]
		if c == '"' {
			p.i++
			return string(out), true
		}
		if c < 0x20 {
			return "", false // raw control characters are not allowed in JSON strings
		}
		if c == '\\' {
			if p.i+1 >= len(p.s) {
				return "", false
			}
			e := p.s[p.i+1]
			p.i += 2
			switch e {
			case '"':
				out = append(out, '"')
			case '\\':
				out = append(out, '\\')
			case '/':
				out = append(out, '/')
			case 'n':
				out = append(out, '\n')
			case 'r':
				out = append(out, '\r')
			case 't':
				out = append(out, '\t')
			case 'b':
				out = append(out, 8)
			case 'f':
				out = append(out, 12)
			case 'u':
				if p.i+4 > len(p.s) {
					return "", false
				}
				v := 0
				for k := 0; k < 4; k++ {
					h, ok := vfHex(p.s[p.i+k])
					if !ok {
						return "", false
					}
					v = v*16 + h
				}
				p.i += 4
				if v >= 0x80 {
					return "", false // outside the harness alphabet
				}
				out = append(out, byte(v))
			default:
				return "", false
			}
			continue
		}
		out = append(out, c)
		p.i++
	}
}

func (p *vfParser) lit(w string) bool {
	if len(p.s)-p.i >= len(w) {
		if p.s[p.i:p.i+len(w)] == w {
			p.i += len(w)
			return true
		}
	}
	return false
}

func (p *vfParser) value() (vfVal, bool) {
	if p.i >= len(p.s) {
		return vfVal{}, false
	}
	c := p.s[p.i]
	switch {
	case c == '"':
		s, ok := p.str()
		return vfVal{0, s}, ok
	case c == 't':
		return vfVal{2, ""}, p.lit("true")
	case c == 'f':
		return vfVal{3, ""}, p.lit("false")
	case c == 'n':
		return vfVal{4, ""}, p.lit("null")
	case c == '{':
		p.i++
		p.ws()
		return vfVal{5, ""}, p.eat('}')
	case c == '-' || (c >= '0' && c <= '9'):
		start := p.i
		if c == '-' {
			p.i++
		}
		nd := 0
		for p.i < len(p.s) && p.s[p.i] >= '0' && p.s[p.i] <= '9' {
			p.i++
			nd++
		}
		if nd == 0 {
			return vfVal{}, false
		}
		if nd > 1 && p.s[p.i-nd] == '0' {
			return vfVal{}, false // leading zero
		}
		digits := func() bool {
			k := 0
			for p.i < len(p.s) && p.s[p.i] >= '0' && p.s[p.i] <= '9' {
				p.i++
				k++
			}
			return k > 0
		}
		if p.i < len(p.s) && p.s[p.i] == '.' {
			p.i++
			if !digits() {
				return vfVal{}, false
			}
		}
		if p.i < len(p.s) && (p.s[p.i] == 'e' || p.s[p.i] == 'E') {
			p.i++
			if p.i < len(p.s) && (p.s[p.i] == '+' || p.s[p.i] == '-') {
				p.i++
			}
			if !digits() {
				return vfVal{}, false
			}
		}
		return vfVal{1, p.s[start:p.i]}, true
	}
	return vfVal{}, false
}

func (p *vfParser) object() (vfObj, bool) {
	var o vfObj
	if !p.eat('{') {
		return o, false
	}
	p.ws()
	if p.eat('}') {
		return o, true
	}
	for {
		p.ws()
		k, ok := p.str()
		if !ok {
			return o, false
		}
		p.ws()
		if !p.eat(':') {
			return o, false
		}
		p.ws()
		v, ok := p.value()
		if !ok {
			return o, false
		}
		o.keys = append(o.keys, k)
		o.vals = append(o.vals, v)
		p.ws()
		if p.eat(',') {
			continue
		}
		if p.eat('}') {
			return o, true
		}
		return o, false
	}
}

// vfParseArray reads a whole document: one array of objects, strictly.
func vfParseArray(out string) ([]vfObj, bool) {
	p := &vfParser{s: out}
	var objs []vfObj
	p.ws()
	if !p.eat('[') {
		return nil, false
	}
	p.ws()
	if p.eat(']') {
		p.ws()
		return objs, p.i == len(out)
	}
	for {
		p.ws()
		o, ok := p.object()
		if !ok {
			return nil, false
		}
		objs = append(objs, o)
		p.ws()
		if p.eat(',') {
			continue
		}
		if p.eat(']') {
			p.ws()
			return objs, p.i == len(out)
		}
		return nil, false
	}
}

type vfStringer struct{ s string }

func (x vfStringer) String() string { return x.s }

// a text-like item reached through a pointer (the method is on the pointer type)
type vfPtrStringer struct{ s string }

func (x *vfPtrStringer) String() string { return x.s }

func vfItoa(i int) string {
	if i == 0 {
		return "0"
	}
	neg := i < 0
	if neg {
		i = -i
	}
	var b []byte
	for i > 0 {
		b = append([]byte{byte('0' + i%10)}, b...)
		i /= 10
	}
	if neg {
		return "-" + string(b)
	}
	return string(b)
}

type vfWant struct {
	val   vfVal
	empty bool
}

// vfItem draws an item of a symbolic kind; symbolic says whether its text may be an arbitrary string.
func vfItem(name string, mode int, symbolic bool, L int) (interface{}, vfWant) {
	str := func() string {
		if symbolic {
			return vfString(name+".s", L, vfASCII)
		}
		return "v"
	}
	nk := 10
	if mode == 2 {
		nk = 2 // sequences: a string or nil
	}
	kind := 0
	if mode == 0 {
		// content: a plain string, or an item that marshals as {} and falls back to its text
		if symbolic && vfChoice(name+".kind", 2) == 1 {
			kind = 6
		}
	} else {
		kind = vfChoice(name+".kind", nk)
	}
	switch kind {
	case 0:
		s := str()
		return s, vfWant{vfVal{0, s}, len(s) == 0}
	case 1:
		return nil, vfWant{vfVal{4, ""}, true}
	case 2:
		return true, vfWant{vfVal{2, ""}, false}
	case 3:
		return false, vfWant{vfVal{3, ""}, false}
	case 4:
		i := vfInt(name+".i", -2, 10)
		if mode == 1 {
			vfAssume(vfOr(i < 1, i > 8))
		}
		return i, vfWant{vfVal{1, ""}, false} // text filled in after rendering (the value is concrete by then)
	case 5:
		return "", vfWant{vfVal{0, ""}, true}
	case 9: // a text that is not empty although it is zero cells wide on a terminal
		return "\t", vfWant{vfVal{0, "\t"}, false}
	}
	s := str()
	var item interface{} = vfStringer{s}
	switch kind {
	case 7: // pointer to a struct without exported fields, text method on the pointer
		item = &vfPtrStringer{s}
	case 8: // an error value (a pointer to a struct without exported fields)
		item = errors.New(s)
	}
	if len(s) == 0 {
		return item, vfWant{vfVal{5, ""}, true}
	}
	return item, vfWant{vfVal{0, s}, false}
}

// mode 0 (content): header and cell texts arbitrary ASCII, skipable unset
// mode 1 (config): concrete texts, every item kind, every skipable assignment
// mode 2 (sequences): rows and separators in every order, concrete contents
func verifC07(mode, cols, maxEntries, L int, symCells int) {
	t := New()
	nh := vfChoice("hdr", cols+2) - 1 // -1 none
	var hdr []string
	nSym := 0
	if nh >= 0 {
		items := make([]interface{}, nh)
		hdr = make([]string, nh)
		for i := range items {
			var s string
			switch {
			case mode != 0:
				s = "k" + vfItoa(i)
			case i == 0:
				s = vfString(vfName("h", i), L, vfASCII)
			default:
				// one arbitrary byte: may or may not duplicate a one-byte first header
				s = string([]byte{vfByte(vfName("hb", i), vfASCII)})
			}
			items[i], hdr[i] = s, s
		}
		t.AddHeaders(items...)
	}
	ncols := 0
	if nh > 0 {
		ncols = nh
	}
	type wrow struct {
		cells []vfWant
		items []interface{}
	}
	var want []wrow
	n := vfChoice("entries", maxEntries+1)
	for r := 0; r < n; r++ {
		k := vfChoice(vfName("row", r), cols+2) // 0: separator
		if k == 0 {
			t.AddSeparator()
			if r == n-1 {
				vfTag("trailing-separator")
			}
			continue
		}
		nc := k - 1
		items := make([]interface{}, nc)
		ws := make([]vfWant, nc)
		for i := range items {
			nSym++
			items[i], ws[i] = vfItem(vfName("c", r*8+i), mode, mode == 0 && nSym <= symCells, L)
		}
		t.AddRowItems(items...)
		want = append(want, wrow{cells: ws, items: items})
		if nc > ncols {
			ncols = nc
		}
	}
	// skipable: 0 unset, 1 true, 2 false, 3 non-boolean
	skip := make([]int, ncols+1)
	badSkip := false
	for i := 0; i <= ncols; i++ {
		switch mode {
		case 1:
			skip[i] = vfChoice(vfName("skip", i), 4)
		case 2:
			if i == 0 {
				skip[i] = vfChoice(vfName("skip", i), 2)
			}
		}
		if mode == 1 && i == 1 && vfChoice("skip-history", 2) == 1 {
			// the final setting is reached through a history: the opposite value, an unrelated
			// property, then the final value (or removal by setting nil)
			t.Column(i).SetProperty(properties.Skipable, skip[i] != 1)
			t.Column(i).SetProperty(&vfOtherKey{1}, "unrelated")
			if skip[i] == 0 {
				t.Column(i).SetProperty(properties.Skipable, nil)
			}
			vfTag("skipable-through-history")
		}
		switch skip[i] {
		case 1:
			t.Column(i).SetProperty(properties.Skipable, true)
		case 2:
			t.Column(i).SetProperty(properties.Skipable, false)
		case 3:
			t.Column(i).SetProperty(properties.Skipable, "yes")
			badSkip = true
		}
	}
	out, err := t.Render()
	vfObserveStr("out", out)
	vfObserveBool("err", err != nil)
	// expected refusal
	refuse := ncols == 0 || nh < ncols || badSkip
	if !refuse {
		for i := 0; i < ncols; i++ {
			if len(hdr[i]) == 0 {
				refuse = true
			}
			for j := 0; j < i; j++ {
				if hdr[i] == hdr[j] {
					refuse = true
				}
			}
		}
	}
	if refuse {
		vfAssert(err != nil, "bad-table-refused")
		vfAssert(out == "", "no-text-on-error")
		return
	}
	vfAssert(err == nil, "render-ok")
	if err != nil {
		vfAssert(out == "", "no-text-on-error")
		return
	}
	objs, ok := vfParseArray(out)
	vfAssert(ok, "valid-json")
	if !ok {
		return
	}
	vfAssert(len(objs) == len(want), "one-object-per-non-separator-row")
	if len(objs) != len(want) {
		return
	}
	for r, o := range objs {
		k := 0
		for c, w := range want[r].cells {
			eff := skip[c+1]
			if eff == 0 {
				eff = skip[0]
			}
			if eff == 1 && w.empty {
				continue // omitted
			}
			vfAssert(k < len(o.keys), "present-cell-emitted")
			if k >= len(o.keys) {
				return
			}
			vfAssert(o.keys[k] == hdr[c], "key-is-header-text")
			vfAssert(o.vals[k].kind == w.val.kind, "value-kind")
			switch w.val.kind {
			case 0:
				vfAssert(o.vals[k].s == w.val.s, "string-value-roundtrips")
			case 1:
				vfAssert(o.vals[k].s == vfItoa(vfConcrete(want[r].items[c].(int))), "number-value")
			}
			k++
		}
		vfAssert(k == len(o.keys), "nothing-but-the-row-cells")
	}
}

func VerifC07_content() {
	if vfTier() == 0 {
		verifC07(0, 2, 1, 1, 1)
	} else {
		verifC07(0, 2, 1, 2, 1)
	}
}

func VerifC07_config() {
	verifC07(1, 2, 1, 0, 0)
}

func VerifC07_sequences() {
	if vfTier() == 0 {
		verifC07(2, 1, 3, 0, 0)
	} else {
		verifC07(2, 2, 4, 0, 0)
	}
}

type vfFlaky struct {
	failAt, calls int
	got           []byte
}

type vfFlakyErr struct{}

func (vfFlakyErr) Error() string { return "scripted failure" }

func (w *vfFlaky) Write(p []byte) (int, error) {
	i := w.calls
	w.calls++
	if i == w.failAt {
		return 0, vfFlakyErr{}
	}
	w.got = append(w.got, p...)
	return len(p), nil
}

type vfUnencodable struct {
	F func()
	s string
}

func (x vfUnencodable) String() string { return x.s }

// VerifC07_afterfailure: after a render that failed part-way (the destination refused a write, or an
// item could not be encoded), the next successful render is valid JSON mirroring its table.
func VerifC07_afterfailure() {
	t := New()
	t.AddHeaders("id", "name")
	t.AddRowItems(1, vfString("n", 1, vfASCII))
	t.AddRowItems(2, "b")
	ref, err := t.Render()
	vfAssert(err == nil, "render-ok")
	switch vfChoice("how", 2) {
	case 0:
		bad := &vfFlaky{failAt: vfInt("k", 0, 40)}
		e := t.RenderTo(bad)
		vfAssume(bad.calls > bad.failAt)
		vfAssert(e != nil, "failure-surfaces-as-error")
	case 1:
		u := New()
		u.AddHeaders("id", "name")
		u.AddRowItems(1, "ok")
		u.AddRowItems(2, vfUnencodable{s: "bad"})
		out, e := u.Render()
		vfAssert(e != nil, "unencodable-item-is-an-error")
		vfAssert(out == "", "no-text-on-error")
	}
	out2, err2 := t.Render()
	vfAssert(vfAnd(err2 == nil, out2 == ref), "render-after-failure-mirrors-the-table")
	if err2 == nil {
		_, ok := vfParseArray(out2)
		vfAssert(ok, "valid-json")
	}
	good := &vfFlaky{failAt: -1}
	vfAssert(t.RenderTo(good) == nil, "render-ok")
	vfAssert(string(good.got) == ref, "renderto-writes-what-render-returns")
}

// VerifC07_floats: floating-point items are JSON numbers as encoding/json writes them; the values JSON
// cannot express (NaN, the infinities, of either float type) make the render fail with no text, wherever
// in the table they sit.
func VerifC07_floats() {
	z := 0.0
	vals := []interface{}{1.5, -z, 1e21, 1e-7, float32(0.1), 100.0, 123456789.0, float32(1e21), z / z, 1 / z, -1 / z, float32(1 / z), float32(z / z)}
	// the values as decimal texts (what is compared is the number the output denotes, not its spelling)
	wants := []string{"1.5", "-0", "1e+21", "1e-7", "0.1", "100", "123456789", "1e+21"}
	k := vfChoice("value", len(vals))
	t := New()
	t.AddHeaders("id", "v")
	where := vfChoice("where", 3)
	for r := 0; r < 3; r++ {
		if r == where {
			t.AddRowItems(r, vals[k])
		} else {
			t.AddRowItems(r, "ok")
		}
	}
	out, err := t.Render()
	good := &vfFlaky{failAt: -1}
	err2 := t.RenderTo(good)
	if k >= len(wants) {
		vfAssert(err != nil, "unencodable-item-is-an-error")
		vfAssert(out == "", "no-text-on-error")
		vfAssert(err2 != nil, "unencodable-item-is-an-error")
		return
	}
	vfAssert(vfAnd(err == nil, err2 == nil), "render-ok")
	vfAssert(string(good.got) == out, "renderto-writes-what-render-returns")
	objs, ok := vfParseArray(out)
	vfAssert(ok, "valid-json")
	vfAssert(vfOr(!ok, len(objs) == 3), "one-object-per-row")
	if !ok || len(objs) != 3 {
		return
	}
	o := objs[where]
	vfAssert(len(o.vals) == 2, "one-member-per-cell")
	if len(o.vals) == 2 {
		vfAssert(o.vals[1].kind == 1, "float-item-is-a-json-number")
		if o.vals[1].kind == 1 {
			got, perr := strconv.ParseFloat(o.vals[1].s, 64)
			want, _ := strconv.ParseFloat(wants[k], 64)
			vfAssert(vfAnd(perr == nil, got == want), "number-denotes-the-items-value")
		}
	}
	vfObserveStr("out", out)
}

type vfSkipSetter struct{ v interface{} }

func (cb vfSkipSetter) UpdateProperties(po tabular.PropertyOwner) error {
	return po.SetProperty(properties.Skipable, cb.v)
}

// VerifC07_rendertime: column settings made by the table's own render-time callbacks (which run as
// part of every render) count for that very render: empty cells of a column marked skipable by such a
// callback are omitted the first time already, a non-boolean setting is refused, and a second render
// gives the same text.
func VerifC07_rendertime() {
	t := New()
	t.AddHeaders("id", "note")
	t.AddRowItems(1, "")
	t.AddRowItems(2, "x")
	col := []int{0, 2}[vfChoice("column", 2)]
	var v interface{} = true
	bad := vfChoice("value", 2) == 1
	if bad {
		v = "yes" // not a boolean
	}
	vfAssert(t.RegisterPropertyCallback(t.Column(col), tabular.CB_AT_RENDER_PRECELL, tabular.CB_ON_ITSELF, vfSkipSetter{v}) == nil, "register-ok")
	out1, err1 := t.Render()
	out2, err2 := t.Render()
	vfAssert((err1 == nil) == (err2 == nil), "second-render-same")
	vfAssert(out1 == out2, "second-render-same")
	if bad {
		vfAssert(vfAnd(err1 != nil, out1 == ""), "non-boolean-skipable-is-an-error")
		return
	}
	vfAssert(err1 == nil, "render-ok")
	objs, ok := vfParseArray(out1)
	vfAssert(ok, "valid-json")
	vfAssert(vfOr(!ok, len(objs) == 2), "one-object-per-row")
	if ok && len(objs) == 2 {
		vfAssert(len(objs[0].vals) == 1, "empty-cell-of-skipable-column-omitted")
		vfAssert(len(objs[1].vals) == 2, "one-member-per-cell")
	}
	vfObserveStr("out", out1)
}

// VerifC07_reheader: a wrapper that has rendered, whose headers are then replaced (same count, other
// texts - also duplicate or empty ones), renders like a fresh wrapper of an equal table: the keys are
// the current header texts, and unusable headers are refused with no text.
func VerifC07_reheader() {
	sets := [][]interface{}{{"k", "v"}, {"d", "d"}, {"", "v"}, {"name", "id"}, {vfString("h", 1, vfASCII), "id"}}
	hs := sets[vfChoice("headers", len(sets))]
	t := New()
	t.AddHeaders("id", "name")
	t.AddRowItems(1, "x")
	_, err := t.Render()
	vfAssert(err == nil, "render-ok")
	t.AddHeaders(hs...)
	out2, err2 := t.Render()
	fresh := New()
	fresh.AddHeaders(hs...)
	fresh.AddRowItems(1, "x")
	outF, errF := fresh.Render()
	vfAssert((err2 == nil) == (errF == nil), "kept-wrapper-refuses-what-a-fresh-one-refuses")
	vfAssert(out2 == outF, "kept-wrapper-mirrors-the-current-table")
	if err2 != nil {
		vfAssert(out2 == "", "no-text-on-error")
		return
	}
	objs, ok := vfParseArray(out2)
	vfAssert(ok, "valid-json")
	if ok && len(objs) == 1 && len(objs[0].keys) == 2 {
		vfAssert(objs[0].keys[0] == hs[0].(string), "keys-are-the-current-headers")
	}
}
