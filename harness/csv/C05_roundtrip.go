package csv

import "go.pennock.tech/tabular"

// C05: CSV output parses back, under RFC 4180 all-fields-quoted syntax, to exactly the table.

// vf4180Parse is a strict RFC 4180 reader for the all-fields-quoted dialect: every field is quoted,
// "" inside quotes is one quote, a closing quote is followed by ',' or LF, records are LF-terminated.
func vf4180Parse(out string) (recs [][]string, ok bool) {
	i := 0
	n := len(out)
	for i < n {
		var rec []string
		for {
			if i >= n {
				return nil, false
			}
			if out[i] != '"' {
				return nil, false
			}
			i++
			f := make([]byte, 0, 8)
			for {
				if i >= n {
					return nil, false
				}
				c := out[i]
				if c == '"' {
					if i+1 < n {
						if out[i+1] == '"' {
							f = append(f, '"')
							i += 2
							continue
						}
					}
					i++
					break
				}
				f = append(f, c)
				i++
			}
			rec = append(rec, string(f))
			if i >= n {
				return nil, false
			}
			if out[i] == ',' {
				i++
				continue
			}
			if out[i] == '\n' {
				i++
				break
			}
			return nil, false
		}
		recs = append(recs, rec)
	}
	return recs, true
}

func verifC05Shape(maxCols, maxBody, bigLen, smallLen int) {
	t := New()
	var want [][]string
	cols := 0
	nh := vfChoice("hdr", maxCols+2) - 1 // -1: no header, else number of header cells
	// the first text is an arbitrary byte string of up to bigLen bytes, the second of up to smallLen
	// bytes; further cells are concrete (one of them contains every special character)
	nText := 0
	text := func(name string) string {
		nText++
		switch nText {
		case 1:
			return vfString(name, bigLen, vfBYTES)
		case 2:
			return vfString(name, smallLen, vfBYTES)
		case 3:
			return "a\"b,c\r\nd"
		}
		return "x"
	}
	if nh >= 0 {
		items := make([]interface{}, nh)
		hdr := make([]string, nh)
		for i := 0; i < nh; i++ {
			s := text(vfName("h", i))
			items[i] = s
			hdr[i] = s
		}
		if nh == 0 {
			vfTag("zero-cell-row")
		}
		t.AddHeaders(items...)
		want = append(want, hdr)
		if nh > cols {
			cols = nh
		}
	}
	nb := vfChoice("nbody", maxBody+1)
	for r := 0; r < nb; r++ {
		k := vfChoice(vfName("row", r), maxCols+2) // 0: separator, else k-1 cells
		if k == 0 {
			t.AddSeparator()
			continue
		}
		nc := k - 1
		items := make([]interface{}, nc)
		texts := make([]string, nc)
		for i := 0; i < nc; i++ {
			s := text(vfName("c", r*8+i))
			items[i] = s
			texts[i] = s
		}
		if nc == 0 {
			vfTag("zero-cell-row")
		}
		t.AddRowItems(items...)
		want = append(want, texts)
		if nc > cols {
			cols = nc
		}
	}
	vfAssert(t.NColumns() == cols, "ncolumns")
	// a caller that took the row list and scribbled on its copy does not affect what is rendered
	if rows := t.AllRows(); len(rows) >= 2 && vfChoice("scribble", 2) == 1 {
		rows[0], rows[len(rows)-1] = rows[len(rows)-1], rows[0]
		rows[0] = nil
		vfTag("row-list-copy-mutated")
	}
	out, err := t.Render()
	vfObserveStr("out", out)
	vfObserveBool("err", err != nil)
	if cols == 0 {
		vfAssert(err != nil, "zero-columns-refused")
		vfAssert(out == "", "zero-columns-no-output")
		return
	}
	vfAssert(err == nil, "render-ok")
	if err != nil {
		return
	}
	recs, ok := vf4180Parse(out)
	vfAssert(ok, "parses-strictly")
	if !ok {
		return
	}
	vfAssert(len(recs) == len(want), "record-count")
	if len(recs) != len(want) {
		return
	}
	for i := range recs {
		vfAssert(len(recs[i]) == cols, "field-count")
		if len(recs[i]) != cols {
			return
		}
		for j := 0; j < cols; j++ {
			if j < len(want[i]) {
				vfAssert(recs[i][j] == want[i][j], "field-roundtrip")
			} else {
				vfAssert(recs[i][j] == "", "padding-empty")
			}
		}
	}
	// the package-level function and RenderTo agree with the method
	out2, err2 := Render(t.Table)
	vfAssert(err2 == nil, "pkg-render-ok")
	vfAssert(out2 == out, "pkg-render-same")
}

func VerifC05_roundtrip() {
	if vfTier() == 0 {
		verifC05Shape(2, 2, 3, 1)
	} else {
		verifC05Shape(2, 3, 4, 1)
	}
}

type vfQuotaWriter struct {
	failAt, calls int
	got           []byte
}

type vfQuotaErr struct{}

func (vfQuotaErr) Error() string { return "destination refused" }

func (w *vfQuotaWriter) Write(p []byte) (int, error) {
	i := w.calls
	w.calls++
	if w.failAt >= 0 && i >= w.failAt {
		return 0, vfQuotaErr{}
	}
	w.got = append(w.got, p...)
	return len(p), nil
}

// VerifC05_success: "rendering succeeded" is to be believed: whenever RenderTo returns nil - also into a
// destination that starts refusing data at some point - what the destination holds parses back to the table.
func VerifC05_success() {
	t := New()
	t.AddHeaders("h1", "h2")
	t.AddRowItems(vfString("a", 1, vfBYTES), "x\"y")
	t.AddSeparator()
	t.AddRowItems("only")
	w := &vfQuotaWriter{failAt: vfInt("k", -1, 12)}
	err := t.RenderTo(w)
	recs, ok := vf4180Parse(string(w.got))
	good := vfAnd(ok, len(recs) == 3)
	if ok && len(recs) == 3 {
		good = vfAnd(good, vfAnd(len(recs[0]) == 2, vfAnd(len(recs[1]) == 2, len(recs[2]) == 2)))
		if len(recs[0]) == 2 && len(recs[1]) == 2 && len(recs[2]) == 2 {
			good = vfAnd(good, vfAnd(recs[0][0] == "h1", vfAnd(recs[0][1] == "h2", vfAnd(recs[1][1] == "x\"y", vfAnd(recs[2][0] == "only", recs[2][1] == "")))))
		}
	}
	vfAssert(vfOr(err != nil, good), "success-means-the-output-parses-back-to-the-table")
	vfObserveBool("err", err != nil)
}

// VerifC05_long: fields of a few thousand bytes (around and beyond 4096) come back in place and whole,
// in any column; and a zero-value Row added to the table is a row like any other (a record of empty fields).
func VerifC05_long() {
	n := []int{100, 4093, 4096, 5000}[vfChoice("len", 4)]
	b := make([]byte, n)
	for i := range b {
		b[i] = byte('a' + i%26)
	}
	if vfChoice("with-quote", 2) == 1 {
		b[n/2] = '"'
	}
	long := string(b)
	t := New()
	t.AddHeaders("h1", "h2", "h3")
	pos := vfChoice("pos", 3)
	row := []interface{}{"x", "y", "z"}
	row[pos] = long
	t.AddRowItems(row...)
	zero := vfChoice("zero-value-row", 2) == 1
	if zero {
		t.AddRow(&tabular.Row{})
	}
	t.AddRowItems("last")
	out, err := t.Render()
	vfAssert(err == nil, "render-ok")
	recs, ok := vf4180Parse(out)
	vfAssert(ok, "parses-strictly")
	want := 3
	if zero {
		want = 4
	}
	vfAssert(vfOr(!ok, len(recs) == want), "record-count")
	if !ok || len(recs) != want {
		return
	}
	for i := range recs {
		vfAssert(len(recs[i]) == 3, "field-count")
		if len(recs[i]) != 3 {
			return
		}
	}
	for j := 0; j < 3; j++ {
		vfAssert(recs[1][j] == row[j].(string), "field-roundtrip")
	}
	if zero {
		vfAssert(vfAnd(recs[2][0] == "", vfAnd(recs[2][1] == "", recs[2][2] == "")), "padding-empty")
	}
	vfAssert(recs[want-1][0] == "last", "field-roundtrip")
}

// VerifC05_rerender: a wrapper rendered again (unchanged, or after another row was added) gives the
// whole table again: header record first, then one record per row.
func VerifC05_rerender() {
	t := New()
	h := vfString("h", 1, vfBYTES)
	t.AddHeaders("h1", h)
	t.AddRowItems("a", "b")
	out1, err := t.Render()
	vfAssert(err == nil, "render-ok")
	want := 2
	if vfChoice("grow", 2) == 1 {
		t.AddRowItems("c")
		want = 3
	}
	out2, err2 := t.Render()
	vfAssert(err2 == nil, "render-ok")
	if want == 2 {
		vfAssert(out2 == out1, "repeat-render-same")
	}
	recs, ok := vf4180Parse(out2)
	vfAssert(ok, "parses-strictly")
	vfAssert(vfOr(!ok, len(recs) == want), "record-count")
	if !ok || len(recs) != want {
		return
	}
	vfAssert(len(recs[0]) == 2, "field-count")
	if len(recs[0]) != 2 {
		return
	}
	vfAssert(vfAnd(recs[0][0] == "h1", recs[0][1] == h), "header-record-first")
}
