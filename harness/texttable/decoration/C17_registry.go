package decoration

func vfDeco(glyph byte) Decoration {
	d := Decoration{Horizontal: "-", Vertical: "|", CrossPiece: string([]byte{glyph})}
	d.Populate()
	return d
}

var vfBuiltinNames = []string{D_ASCII_SIMPLE, D_NONE, D_UTF8_DOUBLE, D_UTF8_HEAVY, D_UTF8_LIGHT, D_UTF8_LIGHT_CURVED}

func vfCheckListing(list []string, registered []string) {
	for i := 1; i < len(list); i++ {
		vfAssert(list[i-1] < list[i], "listing-sorted-and-duplicate-free")
	}
	has := func(n string) bool {
		found := false
		for _, l := range list {
			found = vfOr(found, l == n)
		}
		return found
	}
	for _, n := range vfBuiltinNames {
		vfAssert(has(n), "listing-contains-built-ins")
	}
	for _, n := range registered {
		vfAssert(has(n), "listing-contains-registered-names")
	}
}

// VerifC17_sequential: sequential histories of registrations and overwrites with arbitrary names.
func VerifC17_sequential() {
	K := 2
	if vfTier() == 1 {
		K = 3
	}
	// overwriting a built-in may be the very first thing the process does with the registry
	var early Decoration
	earlyName := ""
	if vfChoice("early-overwrite", 2) == 1 {
		early = vfDeco('%')
		earlyName = vfBuiltinNames[vfChoice("early-name", len(vfBuiltinNames))]
		RegisterDecorationName(earlyName, early)
	}
	n := vfChoice("n", K+1)
	var names []string
	var decos []Decoration
	for i := 0; i < n; i++ {
		name := vfString(vfName("name", i), 2, vfASCII)
		d := vfDeco(vfByte(vfName("glyph", i), vfTXT))
		if vfChoice(vfName("empty", i), 2) == 1 {
			d = EmptyDecoration // a registration like any other: the name is taken (and listed)
			vfTag("empty-decoration-registered")
		}
		RegisterDecorationName(name, d)
		names = append(names, name)
		decos = append(decos, d)
	}
	// lookup of an arbitrary name
	q := vfString("q", 2, vfASCII)
	got := Named(q)
	want := EmptyDecoration
	for i := range names {
		if names[i] == q {
			want = decos[i] // the latest registration under that name
		}
	}
	vfAssert(got == want, "lookup-returns-latest-registration-or-empty")
	// built-ins stay reachable and unknown long names are empty
	for _, b := range vfBuiltinNames {
		vfAssert(Named(b) != EmptyDecoration, "built-ins-registered")
		if b == earlyName {
			vfAssert(Named(b) == early, "overwrite-takes-effect")
		}
	}
	vfAssert(Named("no such decoration") == EmptyDecoration, "unknown-name-is-empty")
	vfCheckListing(RegisteredDecorationNames(), names)
	// overwriting a built-in is allowed and takes effect
	if vfChoice("overwrite-builtin", 2) == 1 {
		d := vfDeco('#')
		RegisterDecorationName(D_NONE, d)
		vfAssert(Named(D_NONE) == d, "overwrite-takes-effect")
		vfCheckListing(RegisteredDecorationNames(), names)
	}
}

// VerifC17_concurrent: registration, lookup and listing from concurrent goroutines are free of data
// races; results are consistent with some order of the calls.
func VerifC17_concurrent() {
	n1 := vfString("n1", 1, vfASCII)
	n2 := vfString("n2", 1, vfASCII)
	n3 := vfString("n3", 1, vfASCII)
	d1, d2 := vfDeco('1'), vfDeco('2')
	var got Decoration
	var list []string
	var got2 Decoration
	// a thread that has registered a name finds it in a listing it asks for afterwards
	own1ok := true
	contains := func(l []string, n string) bool {
		found := false
		for _, x := range l {
			found = vfOr(found, x == n)
		}
		return found
	}
	bodies := []func(){
		func() {
			nm := vfFresh(n1)
			RegisterDecorationName(nm, d1)
			own1ok = vfAnd(own1ok, contains(RegisteredDecorationNames(), nm))
		},
		func() { got = Named(n3) },
		func() { list = RegisteredDecorationNames() },
		func() { RegisterDecorationName(vfFresh(n2), d2) },
		func() { got2 = Named(n1) },
	}
	nt := 4
	nb := 4 // (a fifth lookup thread exists but makes the schedule space too large for the preemption bound of the thorough tier)
	vfPar(bodies[:nb]...)
	if nb == 5 {
		vfAssert(got2 == EmptyDecoration || got2 == d1 || (n1 == n2 && got2 == d2), "lookup-returns-a-registered-decoration-or-empty")
	}
	// any schedule: the lookup saw a decoration registered under that name, or none
	ok := got == EmptyDecoration
	if n3 == n1 {
		ok = ok || got == d1
	}
	if nt == 4 && n3 == n2 {
		ok = ok || got == d2
	}
	vfAssert(ok, "lookup-returns-a-registered-decoration-or-empty")
	vfAssert(own1ok, "own-registration-is-in-own-later-listing")
	vfCheckListing(list, nil)
	// once registrations have finished, the latest wins and the listing is complete
	final := Named(n1)
	if nt == 4 && n1 == n2 {
		vfAssert(final == d1 || final == d2, "after-join-lookup-returns-a-registration")
	} else {
		vfAssert(final == d1, "after-join-lookup-returns-the-registration")
	}
	regd := []string{n1}
	if nt == 4 {
		regd = append(regd, n2)
	}
	vfCheckListing(RegisteredDecorationNames(), regd)
}

// VerifC17_listers: concurrent listings (and lookups) with or without an earlier listing or a
// registration before them.
func VerifC17_listers() {
	var l1, l2 []string
	var d Decoration
	if vfChoice("register-first", 2) == 1 {
		RegisterDecorationName(vfString("n", 1, vfASCII), vfDeco('x'))
	}
	if vfChoice("warm", 2) == 1 {
		RegisteredDecorationNames()
	}
	bodies := []func(){
		func() { l1 = RegisteredDecorationNames() },
		func() { l2 = RegisteredDecorationNames() },
		func() { d = Named(D_NONE) },
	}
	vfPar(bodies[:2+vfChoice("third", 2)]...)
	vfCheckListing(l1, nil)
	vfCheckListing(l2, nil)
	vfAssert(len(l1) == len(l2), "concurrent-listings-agree")
	_ = d
}

// VerifC17_lookupsbetween: lookups interleaved with registrations of the same name: each lookup shows
// the registration made last before it, whatever was looked up (found or not) before.
func VerifC17_lookupsbetween() {
	x := vfString("x", 2, vfASCII)
	if vfChoice("builtin", 2) == 1 {
		x = vfBuiltinNames[vfChoice("which", len(vfBuiltinNames))]
	}
	before := Named(x) // a hit for a built-in, usually a miss otherwise
	d1, d2 := vfDeco('1'), vfDeco('2')
	if vfChoice("first-registration", 2) == 1 {
		RegisterDecorationName(x, d1)
		if vfChoice("lookup-after-first", 2) == 1 {
			vfAssert(Named(x) == d1, "lookup-returns-latest-registration-or-empty")
		}
		before = d1
	}
	if vfChoice("other-lookup", 2) == 1 {
		Named(vfString("y", 1, vfASCII))
	}
	vfAssert(Named(x) == before, "lookup-returns-latest-registration-or-empty")
	RegisterDecorationName(x, d2)
	vfAssert(Named(x) == d2, "overwrite-takes-effect")
	RegisterDecorationName(x, EmptyDecoration)
	vfAssert(Named(x) == EmptyDecoration, "overwrite-takes-effect")
}
