package texttable

import (
	"go.pennock.tech/tabular"
	"go.pennock.tech/tabular/length"
	"go.pennock.tech/tabular/properties/align"
	"go.pennock.tech/tabular/texttable/decoration"
)

// Reference model of the documented layout, used as oracle by C03 and C04: a top rule, an optional
// header block closed by a header rule, per row one line per text line of its tallest cell (at least
// one), one rule per separator, a bottom rule; each slot is the cell line padded with spaces to the
// column width, with one space either side, aligned as the column asks.

type vfCellSpec struct {
	lines []string // text lines of the cell
	declW int      // declared display width of a single-line item, or -1
	declH int      // declared height, or -1
}

type vfRowSpec struct {
	sep   bool
	cells []vfCellSpec
}

func vfSpaces(n int) string {
	s := ""
	for i := 0; i < n; i++ {
		s += " "
	}
	return s
}

func vfRep(g string, n int) string {
	s := ""
	for i := 0; i < n; i++ {
		s += g
	}
	return s
}

func vfLinesOf(s string) []string {
	if s == "" {
		return nil
	}
	var out []string
	start := 0
	for i := 0; i < len(s); i++ {
		if s[i] == '\n' {
			out = append(out, s[start:i])
			start = i + 1
		}
	}
	if start < len(s) {
		out = append(out, s[start:])
	}
	return out
}

// vfLineWidth is the display width the layout uses for one cell line.
func vfLineWidth(c vfCellSpec, l int) int {
	if c.declW >= 0 && len(c.lines) == 1 {
		return c.declW
	}
	return length.StringCells(c.lines[l])
}

func vfCellWidth(c vfCellSpec) int {
	if c.declW >= 0 {
		return c.declW
	}
	w := 0
	for l := range c.lines {
		lw := length.StringCells(c.lines[l])
		w = vfIteInt(lw > w, lw, w)
	}
	return w
}

func vfCellHeight(c vfCellSpec) int {
	h := len(c.lines)
	if c.declH > h {
		h = c.declH
	}
	return h
}

func vfColWidths(hdr []vfCellSpec, rows []vfRowSpec, ncols int) []int {
	ws := make([]int, ncols)
	upd := func(cells []vfCellSpec) {
		for i := range cells {
			if i < ncols {
				w := vfCellWidth(cells[i])
				ws[i] = vfIteInt(w > ws[i], w, ws[i])
			}
		}
	}
	upd(hdr)
	for _, r := range rows {
		if !r.sep {
			upd(r.cells)
		}
	}
	return ws
}

func vfRule(boxless bool, left, h, cross, right string, ws []int) string {
	if boxless {
		return ""
	}
	s := left
	for i, w := range ws {
		s += vfRep(h, vfConcrete(w)+2)
		if i < len(ws)-1 {
			s += cross
		}
	}
	return s + right + "\n"
}

// alignment codes: 0 unset, 1 left, 2 right, 3 centre
func vfSlot(text string, tw, colw, a int) string {
	pad := colw - tw
	if pad < 0 {
		pad = 0
	}
	pad = vfConcrete(pad)
	switch a {
	case 2:
		return vfSpaces(pad) + text
	case 3:
		l := pad / 2
		return vfSpaces(l) + text + vfSpaces(pad-l)
	}
	return text + vfSpaces(pad)
}

func vfContentLines(boxless bool, left, inner, right string, cells []vfCellSpec, ws []int, aligns []int) string {
	h := 1
	for i := range cells {
		if i < len(ws) {
			if ch := vfCellHeight(cells[i]); ch > h {
				h = ch
			}
		}
	}
	out := ""
	for l := 0; l < h; l++ {
		line := ""
		if !boxless {
			line = left + " "
		}
		for c := range ws {
			text, tw := "", 0
			if c < len(cells) && l < len(cells[c].lines) {
				text, tw = cells[c].lines[l], vfLineWidth(cells[c], l)
			}
			line += vfSlot(text, tw, ws[c], aligns[c])
			if c < len(ws)-1 {
				if boxless {
					line += " "
				} else {
					line += " " + inner + " "
				}
			}
		}
		if !boxless {
			line += " " + right
		}
		out += line + "\n"
	}
	return out
}

func vfRefRender(d decoration.Decoration, boxless bool, hasHdr bool, hdr []vfCellSpec, rows []vfRowSpec, ncols int, aligns []int) string {
	ws := vfColWidths(hdr, rows, ncols)
	out := ""
	if hasHdr {
		out += vfRule(boxless, d.TopLeft, d.HOuter, d.HTopDown, d.TopRight, ws)
		out += vfContentLines(boxless, d.VHeader, d.VHeader, d.VHeader, hdr, ws, aligns)
		out += vfRule(boxless, d.HBLeft, d.HOuter, d.HBCross, d.HBRight, ws)
	} else {
		out += vfRule(boxless, d.TopLeft, d.HOuter, d.BTopDown, d.TopRight, ws)
	}
	for _, r := range rows {
		if r.sep {
			out += vfRule(boxless, d.LeftBodyRule, d.HRule, d.CrossPiece, d.RightBodyRule, ws)
			continue
		}
		out += vfContentLines(boxless, d.VBodyBorder, d.VBodyInner, d.VBodyBorder, r.cells, ws, aligns)
	}
	out += vfRule(boxless, d.BottomLeft, d.HOuter, d.BBottomUp, d.BottomRight, ws)
	return out
}

var vfDecoNames = []string{decoration.D_UTF8_HEAVY, decoration.D_ASCII_SIMPLE, decoration.D_NONE, decoration.D_UTF8_LIGHT, decoration.D_UTF8_LIGHT_CURVED, decoration.D_UTF8_DOUBLE}

func vfSetAlign(t *TextTable, col int, a int) {
	switch a {
	case 1:
		t.Column(col).SetProperty(align.PropertyType, align.Left)
	case 2:
		t.Column(col).SetProperty(align.PropertyType, align.Right)
	case 3:
		t.Column(col).SetProperty(align.PropertyType, align.Center)
	}
}

// vfRectangle checks the geometric clauses directly on the output: equal display width of all lines and
// dividers (the decoration's vertical glyphs / rule junctions) at the same display offsets on every line.
func vfRectangle(out string, ncols int, ws []int, boxless bool) {
	start := 0
	first := true
	w0 := 0
	want := 1
	for _, w := range ws {
		want += vfConcrete(w) + 3
	}
	if boxless {
		want = len(ws) - 1
		for _, w := range ws {
			want += vfConcrete(w)
		}
	}
	for i := 0; i < len(out); i++ {
		if out[i] == '\n' {
			w := length.StringCells(out[start:i])
			if first {
				w0 = w
				first = false
			}
			vfAssert(w == w0, "all-lines-same-display-width")
			vfAssert(w == want, "width-is-sum-of-columns-plus-dividers")
			start = i + 1
		}
	}
	vfAssert(start == len(out), "newline-terminated")
}

type vfMutableText struct{ s string }

func (m *vfMutableText) String() string { return m.s }

// verifUpdated: a cell whose item changed text (also to the empty string, to fewer or more lines, or to
// another text of exactly the same size) and was updated is laid out by its new text.
func verifUpdated() {
	texts := []string{"", "ab", "abc\nd", "x\ny\nz", "wide-text", "cd", "xyz\nw", "up  ", "down"}
	t := New()
	m := &vfMutableText{texts[1+vfChoice("before", 8)]}
	// headers: 0 none, 1 two headers, 2 two headers, replaced by a single shorter one before the last render
	hmode := vfChoice("headers", 3)
	if hmode != 0 {
		t.AddHeaders("h1", "header-two")
	}
	t.AddRowItems(m, "q")
	t.AddRowItems("r")
	sepLater := false
	if vfChoice("render-first", 2) == 1 {
		t.Render()
		// a rule added after that render (and nothing else) shows up in the next one
		if vfChoice("separator-after-render", 2) == 1 {
			t.AddSeparator()
			sepLater = true
		}
	}
	after := texts[vfChoice("after", 9)]
	m.s = after
	if hmode == 2 {
		t.AddHeaders("h")
	}
	c, _ := t.CellAt(tabular.CellLocation{Row: 1, Column: 1})
	c.Update()
	name := vfDecoNames[vfChoice("deco", 3)]
	t.SetDecorationNamed(name)
	d := decoration.Named(name)
	out, err := t.Render()
	vfAssert(err == nil, "render-ok")
	one := func(s string) vfCellSpec { return vfCellSpec{lines: vfLinesOf(s), declW: -1, declH: -1} }
	hdr := []vfCellSpec{one("h1"), one("header-two")}
	if hmode == 2 {
		hdr = []vfCellSpec{one("h")}
	} else if hmode == 0 {
		hdr = nil
	}
	rows := []vfRowSpec{{cells: []vfCellSpec{one(after), one("q")}}, {cells: []vfCellSpec{one("r")}}}
	if sepLater {
		rows = append(rows, vfRowSpec{sep: true})
	}
	want := vfRefRender(d, d == decoration.NoBox(), hmode != 0, hdr, rows, 2, make([]int, 2))
	vfAssert(out == want, "layout-as-documented")
	vfRectangle(out, 2, vfColWidths(hdr, rows, 2), d == decoration.NoBox())
}
