package texttable

import (
	"go.pennock.tech/tabular/properties/align"
	"go.pennock.tech/tabular/texttable/decoration"
)

type vfOtherKey struct{ n int }

// an item that overrides its size
type vfSized struct {
	s    string
	w, h int
	hasW bool
	hasH bool
}

type vfSizedW struct{ vfSized }
type vfSizedH struct{ vfSized }
type vfSizedWH struct{ vfSized }

func (x vfSized) String() string           { return x.s }
func (x vfSizedW) TerminalCellWidth() int  { return x.w }
func (x vfSizedH) Height() int             { return x.h }
func (x vfSizedWH) TerminalCellWidth() int { return x.w }
func (x vfSizedWH) Height() int            { return x.h }

// mode 0: alignment: every assignment of {unset,left,right,centre} to column 0 and each column,
//
//	texts arbitrary TXT∪LF strings in two cells
//
// mode 1: items declaring their own width and/or height
func verifC04(mode, maxCols, L int) {
	t := New()
	nText := 0
	mk := func(name string) (interface{}, vfCellSpec) {
		nText++
		if mode == 1 && nText <= 1 {
			s := vfString(name, L, vfLINE)
			spec := vfCellSpec{lines: vfLinesOf(s), declW: -1, declH: -1}
			kind := vfChoice(name+".sized", 4)
			w := vfInt(name+".w", 0, 3)
			h := vfInt(name+".h", 0, 3)
			base := vfSized{s: s, w: w, h: h}
			switch kind {
			case 1:
				spec.declW = vfConcrete(w)
				vfTag("declared-width")
				return vfSizedW{base}, spec
			case 2:
				spec.declH = vfConcrete(h)
				vfTag("declared-height")
				return vfSizedH{base}, spec
			case 3:
				spec.declW, spec.declH = vfConcrete(w), vfConcrete(h)
				vfTag("declared-width")
				vfTag("declared-height")
				return vfSizedWH{base}, spec
			}
			return s, spec
		}
		if mode == 0 && nText <= 2 {
			s := vfString(name, L, vfLINE)
			return s, vfCellSpec{lines: vfLinesOf(s), declW: -1, declH: -1}
		}
		return "abc", vfCellSpec{lines: []string{"abc"}, declW: -1, declH: -1}
	}
	mkCells := func(prefix string, n int) ([]interface{}, []vfCellSpec) {
		items := make([]interface{}, n)
		specs := make([]vfCellSpec, n)
		for i := range items {
			items[i], specs[i] = mk(vfName(prefix, i))
		}
		return items, specs
	}
	nh := vfChoice("hdr", 2)*(maxCols+1) - 1 // no header, or a full one
	var hdr []vfCellSpec
	ncols := 0
	var rows []vfRowSpec
	// body first so that the symbolic cells are body cells
	k := 1 + vfChoice("row0", maxCols)
	items, specs := mkCells("c", k)
	if nh >= 0 {
		hitems, hspecs := mkCells("h", nh)
		t.AddHeaders(hitems...)
		hdr = hspecs
		ncols = nh
	}
	t.AddRowItems(items...)
	rows = append(rows, vfRowSpec{cells: specs})
	if k > ncols {
		ncols = k
	}
	if vfChoice("second", 2) == 1 {
		t.AddSeparator()
		rows = append(rows, vfRowSpec{sep: true})
		t.AddRowItems("z")
		rows = append(rows, vfRowSpec{cells: []vfCellSpec{{lines: []string{"z"}, declW: -1, declH: -1}}})
	}
	set := make([]int, ncols+1)
	for i := 0; i <= ncols; i++ {
		if mode == 0 {
			set[i] = vfChoice(vfName("align", i), 4)
		} else if i == 1 {
			set[i] = vfChoice(vfName("align", i), 4)
		}
		if i == 1 && vfChoice("align-history", 2) == 1 {
			// the final setting is reached through a history: another value first, then an unrelated
			// property, then the final value (or removal by setting nil)
			vfSetAlign(t, i, 1+(set[i]+1)%3)
			t.Column(i).SetProperty(&vfOtherKey{1}, "unrelated")
			if set[i] == 0 {
				t.Column(i).SetProperty(align.PropertyType, nil)
			}
			vfTag("alignment-through-history")
		}
		vfSetAlign(t, i, set[i])
	}
	aligns := make([]int, ncols)
	for i := range aligns {
		aligns[i] = set[i+1]
		if aligns[i] == 0 {
			aligns[i] = set[0]
		}
	}
	name := vfDecoNames[vfChoice("deco", 3)]
	t.SetDecorationNamed(name)
	d := decoration.Named(name)
	boxless := d == decoration.NoBox()
	out, err := t.Render()
	vfObserveStr("out", out)
	vfAssert(err == nil, "render-ok")
	if err != nil {
		return
	}
	want := vfRefRender(d, boxless, nh >= 0, hdr, rows, ncols, aligns)
	vfAssert(out == want, "every-cell-line-in-its-slot-aligned-as-asked")
}

func VerifC04_alignment() {
	if vfTier() == 0 {
		verifC04(0, 2, 2)
	} else {
		verifC04(0, 2, 3)
	}
}

func VerifC04_sized() {
	if vfTier() == 0 {
		verifC04(1, 2, 2)
	} else {
		verifC04(1, 2, 3)
	}
}

// a cell's text changed (possibly to a text of the same size) and the cell was updated between renders
func VerifC04_updated() {
	verifUpdated()
}

// VerifC04_earlydefault: a default alignment given to column 0 before any column exists is only a
// default: once it is changed or withdrawn, columns created in between follow the current default
// (they never keep a copy of the old one), and a column's own later setting wins.
func VerifC04_earlydefault() {
	t := New()
	early := 2 + vfChoice("early", 2) // right or centre, set on the still empty table
	vfSetAlign(t, 0, early)
	one := func(s string) vfCellSpec { return vfCellSpec{lines: vfLinesOf(s), declW: -1, declH: -1} }
	t.AddHeaders("head-one", "head-two")
	t.AddRowItems("a", "b\ncc")
	hdr := []vfCellSpec{one("head-one"), one("head-two")}
	rows := []vfRowSpec{{cells: []vfCellSpec{one("a"), one("b\ncc")}}}
	ncols := 2
	if vfChoice("grow-later", 2) == 1 {
		t.AddRowItems("x", "y", "third")
		rows = append(rows, vfRowSpec{cells: []vfCellSpec{one("x"), one("y"), one("third")}})
		ncols = 3
	}
	final := vfChoice("final", 4) // 0: withdrawn
	if final == 0 {
		t.Column(0).SetProperty(align.PropertyType, nil)
	} else {
		vfSetAlign(t, 0, final)
	}
	own := vfChoice("own", 4) // column 2's own setting
	vfSetAlign(t, 2, own)
	aligns := make([]int, ncols)
	for i := range aligns {
		aligns[i] = final
	}
	if own != 0 {
		aligns[1] = own
	}
	name := vfDecoNames[vfChoice("deco", 3)]
	t.SetDecorationNamed(name)
	d := decoration.Named(name)
	out, err := t.Render()
	vfAssert(err == nil, "render-ok")
	want := vfRefRender(d, d == decoration.NoBox(), true, hdr, rows, ncols, aligns)
	vfAssert(out == want, "every-cell-line-in-its-slot-aligned-as-asked")
	vfObserveStr("out", out)
}

// VerifC04_carriage: a carriage return is content like any other zero-width character, also right
// before a line feed or at the end of the text: it stays in its line, in its slot.
func VerifC04_carriage() {
	// (the last two: a line of fewer runes but more cells than an earlier one, and the other way round)
	texts := []string{"a\r\nbb", "ab\r", "\rx", "a\rb", "a\r\n\r\nb", "\r", "abcd\n日本語", "日本\nabc\nab"}
	s := texts[vfChoice("text", len(texts))]
	one := func(s string) vfCellSpec { return vfCellSpec{lines: vfLinesOf(s), declW: -1, declH: -1} }
	t := New()
	t.AddHeaders("h1", "h2")
	t.AddRowItems(s, "q")
	a := vfChoice("align", 4)
	vfSetAlign(t, 1, a)
	name := vfDecoNames[vfChoice("deco", 3)]
	t.SetDecorationNamed(name)
	d := decoration.Named(name)
	out, err := t.Render()
	vfAssert(err == nil, "render-ok")
	hdr := []vfCellSpec{one("h1"), one("h2")}
	rows := []vfRowSpec{{cells: []vfCellSpec{one(s), one("q")}}}
	want := vfRefRender(d, d == decoration.NoBox(), true, hdr, rows, 2, []int{a, 0})
	vfAssert(out == want, "every-cell-line-in-its-slot-aligned-as-asked")
	vfObserveStr("out", out)
}
