package texttable

import (
	"go.pennock.tech/tabular/texttable/decoration"
)

// mode 0: every cell an arbitrary printable-ASCII string (no content forks, bytes fully symbolic)
// mode 1: up to two cells are multi-line (arbitrary bytes of TXT ∪ LF), others concrete
// mode 2: up to two cells drawn from wide / combining / zero-width / control characters
func verifC03(mode, maxCols, maxBody, L int, decoSel int) {
	t := New()
	nText := 0
	text := func(name string) string {
		nText++
		switch mode {
		case 0:
			return vfString(name, L, vfTXT)
		case 1:
			if nText <= 2 {
				return vfString(name, L, vfLINE)
			}
			return "ab"
		case 3:
			if nText == 1 {
				s := ""
				n := vfChoice(name+".n", L+1)
				for i := 0; i < n; i++ {
					switch vfChoice(vfName(name+".a", i), 5) {
					case 0:
						s += "x"
					case 1:
						s += "世"
					case 2:
						s += "\n"
					case 3:
						s += "​"
					case 4:
						s += "\t"
					}
				}
				return s
			}
			return "ab"
		}
		if nText <= 2 {
			s := ""
			maxAtoms := 2
			if nText == 2 && vfTier() == 0 {
				maxAtoms = 1 // quick: the second text is a single atom
			}
			n := vfChoice(name+".n", maxAtoms+1)
			for i := 0; i < n; i++ {
				switch vfChoice(vfName(name+".a", i), 7) {
				case 0:
					s += "x"
				case 1:
					s += "世"
				case 2:
					s += "é"
				case 3:
					s += "́"
				case 4:
					s += "​"
				case 5:
					s += "\t"
				case 6:
					s += "\U0001F44D\U0001F3FD" // one grapheme cluster of two wide runes (emoji + skin tone)
				}
			}
			return s
		}
		return "ab"
	}
	mkCells := func(prefix string, n int) ([]interface{}, []vfCellSpec) {
		items := make([]interface{}, n)
		specs := make([]vfCellSpec, n)
		for i := range items {
			s := text(vfName(prefix, i))
			items[i] = s
			specs[i] = vfCellSpec{lines: vfLinesOf(s), declW: -1, declH: -1}
		}
		return items, specs
	}
	nh := vfChoice("hdr", maxCols+2) - 1
	var hdr []vfCellSpec
	ncols := 0
	if nh >= 0 {
		items, specs := mkCells("h", nh)
		t.AddHeaders(items...)
		hdr = specs
		ncols = nh
	}
	var rows []vfRowSpec
	nb := vfChoice("nbody", maxBody+1)
	for r := 0; r < nb; r++ {
		k := vfChoice(vfName("row", r), maxCols+2)
		if k == 0 {
			t.AddSeparator()
			rows = append(rows, vfRowSpec{sep: true})
			continue
		}
		items, specs := mkCells(vfName("c", r), k-1)
		t.AddRowItems(items...)
		rows = append(rows, vfRowSpec{cells: specs})
		if k-1 > ncols {
			ncols = k - 1
		}
	}
	if ncols == 0 {
		vfAssume(false) // the property speaks of tables with at least one column
	}
	var d decoration.Decoration
	if decoSel < 0 {
		nd := len(vfDecoNames)
		if (mode == 2 || mode == 3) && vfTier() == 0 {
			nd = 3 // quick: heavy, ascii, boxless; thorough: all six
		}
		name := vfDecoNames[vfChoice("deco", nd)]
		_, err := t.SetDecorationNamed(name)
		vfAssert(err == nil, "registered-decoration-accepted")
		d = decoration.Named(name)
	} else {
		d = vfCustomDecoration(decoSel)
		t.SetDecoration(d)
	}
	boxless := d == decoration.NoBox()
	// the rectangle does not depend on how the columns are aligned: with wide, combining and zero-width
	// characters (mode 2) the first column is optionally right-aligned or centred
	aligns := make([]int, ncols)
	if mode == 2 {
		aligns[0] = []int{0, 2, 3}[vfChoice("align-first-column", 3)]
		vfSetAlign(t, 1, aligns[0])
	}
	out, err := t.Render()
	vfObserveStr("out", out)
	vfAssert(err == nil, "render-ok")
	if err != nil {
		return
	}
	want := vfRefRender(d, boxless, nh >= 0, hdr, rows, ncols, aligns)
	vfAssert(out == want, "layout-as-documented")
	vfRectangle(out, ncols, vfColWidths(hdr, rows, ncols), boxless)
}

// vfCustomDecoration builds a custom decoration in which the fields along one dependency chain of
// Populate are either given or left empty (symbolic choice), then completed by Populate.
func vfCustomDecoration(chain int) decoration.Decoration {
	g := func(name, glyph string) string {
		if vfChoice("has-"+name, 2) == 1 {
			return glyph
		}
		return ""
	}
	d := decoration.Decoration{}
	switch chain {
	case 0: // horizontals (one cell each; optionally of two runes: a base character and a combining overline)
		mark := []string{"", "\u0305"}[vfChoice("two-rune-glyphs", 2)]
		d.Horizontal, d.HOuter, d.HRule = g("Horizontal", "-"+mark), g("HOuter", "="+mark), g("HRule", "~"+mark)
		d.Vertical, d.CrossPiece = "|", "+"
	case 1: // verticals
		d.Vertical, d.VBorder, d.VHeader, d.VBodyBorder, d.VBodyInner = g("Vertical", "|"), g("VBorder", "!"), g("VHeader", "H"), g("VBodyBorder", "B"), g("VBodyInner", ":")
		d.Horizontal, d.CrossPiece = "-", "+"
	case 2: // cross piece, corners
		d.CrossPiece, d.TopLeft, d.TopRight, d.BottomLeft, d.BottomRight = g("CrossPiece", "+"), g("TopLeft", "1"), g("TopRight", "2"), g("BottomLeft", "3"), g("BottomRight", "4")
		d.Horizontal, d.Vertical = "-", "|"
	case 3: // junctions through TopDown
		d.CrossPiece, d.TopDown, d.HTopDown, d.BTopDown, d.BBottomUp = g("CrossPiece", "+"), g("TopDown", "T"), g("HTopDown", "t"), g("BTopDown", "v"), g("BBottomUp", "^")
		d.Horizontal, d.Vertical = "-", "|"
	case 4: // side junctions
		d.CrossPiece, d.LeftBodyRule, d.RightBodyRule, d.HBLeft, d.HBRight, d.HBCross = g("CrossPiece", "+"), g("LeftBodyRule", "["), g("RightBodyRule", "]"), g("HBLeft", "{"), g("HBRight", "}"), g("HBCross", "#")
		d.Horizontal, d.Vertical = "-", "|"
	}
	d.Populate()
	// after Populate every glyph used for rendering is non-empty
	for _, f := range []string{d.CrossPiece, d.HOuter, d.HRule, d.VHeader, d.VBodyBorder, d.VBodyInner, d.TopLeft, d.TopRight, d.BottomLeft, d.BottomRight, d.LeftBodyRule, d.RightBodyRule, d.HTopDown, d.BTopDown, d.BBottomUp, d.HBCross, d.HBLeft, d.HBRight} {
		vfAssert(f != "", "populate-fills-every-render-glyph")
	}
	return d
}

func VerifC03_ascii() {
	if vfTier() == 0 {
		verifC03(0, 2, 2, 2, -1)
	} else {
		verifC03(0, 3, 2, 2, -1)
	}
}

func VerifC03_multiline() {
	if vfTier() == 0 {
		verifC03(1, 2, 1, 3, -1)
	} else {
		verifC03(1, 2, 2, 3, -1)
	}
}

func VerifC03_unicode() {
	verifC03(2, 2, 1, 0, -1)
}

// one cell of up to six atoms over {x, wide CJK, LF, zero-width space, TAB}: lines whose rune counts and widths order differently
func VerifC03_widelines() {
	L := 5
	if vfTier() == 1 {
		L = 6
	}
	verifC03(3, 1, 1, L, -1)
}

func VerifC03_updated() {
	verifUpdated()
}

func VerifC03_custom() {
	verifC03(1, 2, 1, 1, vfChoice("chain", 5))
}
