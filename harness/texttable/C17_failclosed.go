package texttable

import "go.pennock.tech/tabular/texttable/decoration"

// VerifC17_failclosed: a text table set to an unknown decoration name reports the error and then
// refuses to render, rather than rendering with some default.
func VerifC17_failclosed() {
	name := vfString("name", 3, vfASCII)
	if vfChoice("register", 2) == 1 {
		decoration.RegisterDecorationName(vfString("other", 3, vfASCII), decoration.ASCIIBoxSimple())
	}
	known := decoration.Named(name) != decoration.EmptyDecoration
	t := New()
	// the refusal does not depend on what the table holds: also a table nothing was added to yet, or
	// one with headers only
	shape := vfChoice("shape", 3)
	if shape != 1 {
		t.AddHeaders("h")
	}
	if shape == 0 {
		t.AddRowItems("v")
	}
	tt, err := t.SetDecorationNamed(name)
	vfAssert(tt == t, "chains-same-table")
	out, rerr := t.Render()
	vfObserveBool("known", known)
	vfObserveStr("out", out)
	if known && shape != 0 {
		vfAssert(err == nil, "known-name-accepted")
	} else if known {
		vfAssert(err == nil, "known-name-accepted")
		vfAssert(rerr == nil, "known-name-renders")
	} else {
		vfAssert(err != nil, "unknown-name-reported")
		vfAssert(rerr != nil, "unknown-name-refuses-to-render")
		vfAssert(out == "", "unknown-name-no-output")
	}
}

// VerifC17_failclosed_history: after any short history of decoration settings, a table whose last
// setting was an unknown name reports the error and refuses to render.
func VerifC17_failclosed_history() {
	names := []string{"no-such-decoration", decoration.D_ASCII_SIMPLE, "another-unknown", decoration.D_UTF8_HEAVY}
	t := New()
	t.AddHeaders("h")
	t.AddRowItems("v")
	n := 1 + vfChoice("n", 3)
	lastKnown := true // a fresh table has the default decoration
	var lastErr error
	lastWasNamed := false
	for i := 0; i < n; i++ {
		op := vfChoice(vfName("op", i), len(names)+1)
		if op == len(names) {
			t.SetDecoration(decoration.UTF8BoxLight())
			lastKnown, lastWasNamed = true, false
			continue
		}
		_, lastErr = t.SetDecorationNamed(names[op])
		lastKnown = op%2 == 1
		lastWasNamed = true
	}
	out, err := t.Render()
	if lastKnown {
		vfAssert(err == nil, "known-name-renders")
		if lastWasNamed {
			vfAssert(lastErr == nil, "known-name-accepted")
		}
	} else {
		vfAssert(lastErr != nil, "unknown-name-reported")
		vfAssert(err != nil, "unknown-name-refuses-to-render")
		vfAssert(out == "", "unknown-name-no-output")
	}
}
