package texttable

import "go.pennock.tech/tabular/texttable/decoration"

// VerifC17_failclosed: a text table set to an unknown decoration name reports the error and then
// refuses to render, rather than rendering with some default.
func VerifC17_failclosed() {
	name := vfString("name", 3, vfASCII)
	if vfChoice("register", 2) == 1 {
		decoration.RegisterDecorationName(vfString("other", 3, vfASCII), decoration.ASCIIBoxSimple())
	}
	known := decoration.Named(name) != decoration.EmptyDecoration
	t := New()
	t.AddHeaders("h")
	t.AddRowItems("v")
	tt, err := t.SetDecorationNamed(name)
	vfAssert(tt == t, "chains-same-table")
	out, rerr := t.Render()
	vfObserveBool("known", known)
	vfObserveStr("out", out)
	if known {
		vfAssert(err == nil, "known-name-accepted")
		vfAssert(rerr == nil, "known-name-renders")
	} else {
		vfAssert(err != nil, "unknown-name-reported")
		vfAssert(rerr != nil, "unknown-name-refuses-to-render")
		vfAssert(out == "", "unknown-name-no-output")
	}
	// also: registering the empty decoration itself behaves as unknown
}
