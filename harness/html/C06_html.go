package html

import (
	"html/template"

	"go.pennock.tech/tabular"
)

type vfTok struct {
	tag   bool
	name  string   // tag: element name with leading / for closers
	attrs []string // tag: name, value (decoded) pairs
	text  string   // text: decoded
}

// vfEntity decodes the entities the escapers emit; ok=false on an unknown entity or a raw markup character.
func vfUnescape(s string, inAttr bool) (string, bool) {
	out := make([]byte, 0, len(s))
	ents := []struct {
		e string
		c byte
	}{{"&lt;", '<'}, {"&gt;", '>'}, {"&amp;", '&'}, {"&#34;", '"'}, {"&#39;", '\''}, {"&#43;", '+'}}
	for i := 0; i < len(s); {
		c := s[i]
		if c == '&' {
			matched := false
			for _, en := range ents {
				if len(s)-i >= len(en.e) {
					if s[i:i+len(en.e)] == en.e {
						out = append(out, en.c)
						i += len(en.e)
						matched = true
						break
					}
				}
			}
			if !matched {
				return "", false
			}
			continue
		}
		if c == '<' {
			return "", false
		}
		if c == '>' {
			return "", false
		}
		if c == '"' {
			return "", false
		}
		if c == '\'' {
			return "", false
		}
		out = append(out, c)
		i++
	}
	return string(out), true
}

func vfIsSpace(s string) bool {
	for i := 0; i < len(s); i++ {
		c := s[i]
		if c != ' ' {
			if c != '\n' {
				if c != '\t' {
					return false
				}
			}
		}
	}
	return true
}

// vfTokenize splits HTML into tags and text; attribute values must be double-quoted.
func vfTokenize(out string) ([]vfTok, bool) {
	var toks []vfTok
	i := 0
	for i < len(out) {
		if out[i] == '<' {
			j := i + 1
			// element name
			k := j
			for k < len(out) {
				c := out[k]
				if c == ' ' {
					break
				}
				if c == '>' {
					break
				}
				k++
			}
			if k >= len(out) {
				return nil, false
			}
			t := vfTok{tag: true, name: out[j:k]}
			// attributes
			for {
				for k < len(out) && out[k] == ' ' {
					k++
				}
				if k >= len(out) {
					return nil, false
				}
				if out[k] == '>' {
					k++
					break
				}
				a := k
				for k < len(out) && out[k] != '=' {
					if out[k] == '>' {
						return nil, false
					}
					if out[k] == ' ' {
						return nil, false
					}
					k++
				}
				if k+1 >= len(out) {
					return nil, false
				}
				an := out[a:k]
				if out[k+1] != '"' {
					return nil, false
				}
				v := k + 2
				e := v
				for e < len(out) && out[e] != '"' {
					e++
				}
				if e >= len(out) {
					return nil, false
				}
				dec, ok := vfUnescape(out[v:e], true)
				if !ok {
					return nil, false
				}
				t.attrs = append(t.attrs, an, dec)
				k = e + 1
			}
			toks = append(toks, t)
			i = k
			continue
		}
		j := i
		for j < len(out) && out[j] != '<' {
			j++
		}
		dec, ok := vfUnescape(out[i:j], false)
		if !ok {
			return nil, false
		}
		toks = append(toks, vfTok{text: dec})
		i = j
	}
	return toks, true
}

type vfExpectTok struct {
	tag   bool
	name  string
	attrs []string
	text  string
	space bool // text that must be white space only (layout between structural tags)
}

// verifC06: fixed tag skeleton; texts, caption, id, class and row classes entity-decode to the
// supplied strings; the row-class generator sees 0 for the header and the 1-based row position.
// mode 0: every combination of class/id/caption/row-class generator on a small table, one of the four
//
//	strings (chosen by "focus") arbitrary, the others fixed hostile constants
//
// mode 1: table shapes, the first two texts arbitrary
func verifC06(mode, L int) {
	ht := New()
	nSym := 0
	focus := -1
	if mode == 0 {
		focus = vfChoice("focus", 4)
	}
	attrText := func(which int, name string) string {
		if which == focus {
			return vfString(name, L, vfASCIInoNUL)
		}
		return "a\"b<c"
	}
	cellText := func(name string) string {
		nSym++
		if mode == 1 {
			switch nSym {
			case 1:
				return vfString(name, L, vfASCIInoNUL)
			case 2:
				return vfString(name, 1, vfASCIInoNUL)
			}
		}
		return "k&<"
	}
	var want []vfExpectTok
	tag := func(name string, attrs ...string) {
		want = append(want, vfExpectTok{tag: true, name: name, attrs: attrs})
	}
	text := func(s string) { want = append(want, vfExpectTok{text: s}) }
	var tattrs []string
	gen := false
	if mode == 0 {
		if vfChoice("class", 2) == 1 {
			ht.Class = attrText(0, "classv")
		}
		if vfChoice("id", 2) == 1 {
			ht.Id = attrText(1, "idv")
		}
		if vfChoice("caption", 2) == 1 {
			ht.Caption = attrText(2, "captionv")
		}
		gen = vfChoice("generator", 2) == 1
	} else {
		gen = vfChoice("generator", 2) == 1
	}
	if ht.Class != "" {
		tattrs = append(tattrs, "class", ht.Class)
	}
	if ht.Id != "" {
		tattrs = append(tattrs, "id", ht.Id)
	}
	var genLog []int
	rowClass := ""
	if gen {
		rowClass = "odd"
		if mode == 0 {
			rowClass = attrText(3, "rowclass")
		}
		ht.SetRowClassGenerator(func(rowNum int, ctx interface{}) template.HTMLAttr {
			genLog = append(genLog, rowNum)
			return template.HTMLAttr(rowClass)
		}, nil)
	}
	trAttrs := func() []string {
		if gen {
			return []string{"class", rowClass}
		}
		return nil
	}
	tag("table", tattrs...)
	if ht.Caption != "" {
		tag("caption")
		text(ht.Caption)
		tag("/caption")
	}
	tag("thead")
	tag("tr", trAttrs()...)
	var wantGen []int
	if gen {
		wantGen = append(wantGen, 0)
	}
	nh := 1
	if mode == 1 {
		nh = []int{-1, 0, 2}[vfChoice("hdr", 3)]
	}
	if nh >= 0 {
		items := make([]interface{}, nh)
		for i := range items {
			s := cellText(vfName("h", i))
			items[i] = s
			tag("th")
			text(s)
			tag("/th")
		}
		ht.AddHeaders(items...)
	}
	tag("/tr")
	tag("/thead")
	tag("tbody")
	nb := 5
	if mode == 1 {
		nb = vfChoice("nbody", 3)
	}
	for r := 0; r < nb; r++ {
		k := 2
		if mode == 1 {
			k = []int{0, 2, 3, 1}[vfChoice(vfName("row", r), 3+vfTier())]
		} else {
			// one cell, separator, separator, a row without cells, two cells
			k = []int{2, 0, 0, 1, 3}[r]
		}
		if k == 0 {
			ht.AddSeparator()
			continue
		}
		tag("tr", trAttrs()...)
		if gen {
			wantGen = append(wantGen, r+1)
		}
		items := make([]interface{}, k-1)
		for i := range items {
			s := cellText(vfName("c", r*4+i))
			items[i] = s
			tag("td")
			text(s)
			tag("/td")
		}
		ht.AddRowItems(items...)
		tag("/tr")
	}
	tag("/tbody")
	tag("/table")

	out, err := ht.Render()
	vfObserveStr("out", out)
	vfAssert(err == nil, "render-ok")
	if err != nil {
		return
	}
	toks, ok := vfTokenize(out)
	vfAssert(ok, "well-formed-and-no-raw-markup-from-text")
	if !ok {
		return
	}
	// compare, skipping layout white space between tags
	ti := 0
	for _, w := range want {
		for ti < len(toks) && !toks[ti].tag && !(!w.tag) {
			vfAssert(vfIsSpace(toks[ti].text), "only-layout-space-between-tags")
			ti++
		}
		if !w.tag && w.text == "" {
			// an empty text yields no token at all
			continue
		}
		vfAssert(ti < len(toks), "skeleton-complete")
		if ti >= len(toks) {
			return
		}
		g := toks[ti]
		ti++
		vfAssert(g.tag == w.tag, "skeleton-as-documented")
		if g.tag != w.tag {
			return
		}
		if w.tag {
			vfAssert(g.name == w.name, "skeleton-as-documented")
			vfAssert(len(g.attrs) == len(w.attrs), "no-other-attributes")
			if len(g.attrs) == len(w.attrs) {
				for i := range g.attrs {
					vfAssert(g.attrs[i] == w.attrs[i], "attribute-decodes-to-supplied-string")
				}
			}
		} else {
			vfAssert(g.text == w.text, "text-decodes-to-supplied-string")
		}
	}
	for ti < len(toks) {
		vfAssert(!toks[ti].tag, "no-other-tags")
		if !toks[ti].tag {
			vfAssert(vfIsSpace(toks[ti].text), "only-layout-space-between-tags")
		}
		ti++
	}
	// generator calls
	vfAssert(len(genLog) == len(wantGen), "generator-called-once-per-emitted-row")
	if len(genLog) == len(wantGen) {
		for i := range genLog {
			vfAssert(genLog[i] == wantGen[i], "generator-row-numbers")
		}
	}
	// a second render of the same wrapper (template cached, function map rebound) gives the same bytes
	genLog = nil
	out2, err2 := ht.Render()
	vfAssert(vfAnd(err2 == nil, out2 == out), "second-render-same")
	// the generator may be set or replaced after a first render: the next render uses the current one
	var log2 []int
	ht.SetRowClassGenerator(func(rowNum int, ctx interface{}) template.HTMLAttr {
		log2 = append(log2, rowNum)
		return template.HTMLAttr("second")
	}, nil)
	genLog = nil
	out3, err3 := ht.Render()
	vfAssert(err3 == nil, "render-after-generator-change-ok")
	vfAssert(len(genLog) == 0, "replaced-generator-no-longer-called")
	nRows := 1
	for _, w := range want {
		if w.tag && w.name == "tr" {
			nRows++
		}
	}
	vfAssert(len(log2) == nRows-1, "current-generator-called-once-per-emitted-row")
	if err3 == nil {
		toks3, ok3 := vfTokenize(out3)
		vfAssert(ok3, "well-formed-and-no-raw-markup-from-text")
		for _, tk := range toks3 {
			if tk.tag && tk.name == "tr" {
				vfAssert(len(tk.attrs) == 2, "current-generator-class-emitted")
				if len(tk.attrs) == 2 {
					vfAssert(tk.attrs[1] == "second", "current-generator-class-emitted")
				}
			}
		}
	}
}

func VerifC06_attributes() {
	verifC06(0, 2)
}

func VerifC06_cells() {
	if vfTier() == 0 {
		verifC06(1, 2)
	} else {
		verifC06(1, 3)
	}
}

type vfFlaky struct {
	failAt, calls int
	got           []byte
}

type vfFlakyErr struct{}

func (vfFlakyErr) Error() string { return "scripted failure" }

func (w *vfFlaky) Write(p []byte) (int, error) {
	i := w.calls
	w.calls++
	if i == w.failAt {
		return len(p) / 2, vfFlakyErr{}
	}
	w.got = append(w.got, p...)
	return len(p), nil
}

// VerifC06_afterfailure: a render that failed (the destination refused a write) leaves nothing behind:
// the next render - of the same wrapper or of another table - is exactly its own document.
func VerifC06_afterfailure() {
	a := New()
	a.Caption = vfString("cap", 1, vfASCIInoNUL)
	a.AddHeaders("h")
	a.AddRowItems("first-table")
	b := New()
	b.AddHeaders("k")
	b.AddRowItems("second-table")
	refA, errA := a.Render()
	refB, errB := b.Render()
	vfAssert(vfAnd(errA == nil, errB == nil), "render-ok")
	bad := &vfFlaky{failAt: vfInt("k", 0, 40)}
	err := a.RenderTo(bad)
	vfAssume(bad.calls > bad.failAt)
	vfAssert(err != nil, "failure-surfaces-as-error")
	outB, errB2 := b.Render()
	vfAssert(vfAnd(errB2 == nil, outB == refB), "other-table-after-failure-is-its-own-document")
	outA, errA2 := a.Render()
	vfAssert(vfAnd(errA2 == nil, outA == refA), "same-wrapper-after-failure-is-its-own-document")
}

// VerifC06_dictionary: strings that already look like markup, entities, comments or attribute
// break-outs, in every position at once (class, id, caption, a header, a cell): each decodes back to
// exactly the supplied string (an entity look-alike stays the literal characters the caller gave).
func VerifC06_dictionary() {
	dict := []string{"&lt;b&gt;", "&amp;amp;", "&#60;i&#62;", "&#x3c;script", "&notit;", "&nbsp;&mdash;", "<!-- x -->",
		"</td></tr><tr>", "]]>", "&", "&&amp", "' onclick='x", "\" onmouseover=\"x", "é世界<", "a=b c", "&lt", "{{.}}", "\\x3c"}
	d := dict[vfChoice("entry", len(dict))]
	ht := New()
	ht.Class, ht.Id, ht.Caption = d, d, d
	ht.AddHeaders(d, "h")
	ht.AddRowItems("c", d)
	out, err := ht.Render()
	vfObserveStr("out", out)
	vfAssert(err == nil, "render-ok")
	if err != nil {
		return
	}
	toks, ok := vfTokenize(out)
	vfAssert(ok, "well-formed-and-no-raw-markup-from-text")
	if !ok {
		return
	}
	want := []string{d, d, "h", "c", d}
	var texts []string
	ntable := 0
	for _, tk := range toks {
		if tk.tag {
			if tk.name == "table" {
				ntable++
				vfAssert(len(tk.attrs) == 4, "no-other-attributes")
				if len(tk.attrs) == 4 {
					vfAssert(vfAnd(tk.attrs[0] == "class", tk.attrs[1] == d), "attribute-decodes-to-supplied-string")
					vfAssert(vfAnd(tk.attrs[2] == "id", tk.attrs[3] == d), "attribute-decodes-to-supplied-string")
				}
			} else {
				vfAssert(len(tk.attrs) == 0, "no-other-attributes")
			}
			continue
		}
		if !vfIsSpace(tk.text) {
			texts = append(texts, tk.text)
		}
	}
	vfAssert(ntable == 1, "skeleton-as-documented")
	vfAssert(len(texts) == len(want), "skeleton-as-documented")
	if len(texts) == len(want) {
		for i := range want {
			vfAssert(texts[i] == want[i], "text-decodes-to-supplied-string")
		}
	}
}

// VerifC06_sharedrow: the row-class generator sees the position of the row in the table being
// rendered, also for a row object that was (also) added to another table or twice to this one.
func VerifC06_sharedrow() {
	ht := New()
	other := tabular.New()
	r := tabular.NewRow()
	r.Add(tabular.NewCell("shared"))
	var wantGen []int
	wantCells := -1
	switch vfChoice("history", 4) {
	case 3: // added to this table, then to another one, then extended (which only grows the other table)
		ht.AddHeaders("h")
		ht.AddRow(r)
		other.AddRow(r)
		r.Add(tabular.NewCell("late-1")).Add(tabular.NewCell("late-2"))
		wantGen = []int{0, 1}
		wantCells = 3
	case 0: // added to the other table (as its third row) before this one
		other.AddRowItems("a")
		other.AddRowItems("b")
		other.AddRow(r)
		ht.AddRow(r)
		ht.AddRowItems("x")
		wantGen = []int{0, 1, 2}
	case 1: // added to this table first, then to the other one at another position
		ht.AddRowItems("x")
		ht.AddRow(r)
		other.AddRowItems("a")
		other.AddRowItems("b")
		other.AddRowItems("c")
		other.AddRow(r)
		wantGen = []int{0, 1, 2}
	case 2: // twice in this table, a separator in between
		ht.AddRow(r)
		ht.AddSeparator()
		ht.AddRow(r)
		ht.AddRowItems("x")
		wantGen = []int{0, 1, 3, 4}
	}
	var genLog []int
	ht.SetRowClassGenerator(func(rowNum int, ctx interface{}) template.HTMLAttr {
		genLog = append(genLog, rowNum)
		return template.HTMLAttr("k")
	}, nil)
	out, err := ht.Render()
	vfAssert(err == nil, "render-ok")
	if wantCells >= 0 && err == nil {
		// every cell of the row is there, whatever the table's column count says
		toks, ok := vfTokenize(out)
		vfAssert(ok, "well-formed-and-no-raw-markup-from-text")
		n := 0
		for _, tk := range toks {
			if tk.tag && tk.name == "td" {
				n++
			}
		}
		vfAssert(n == wantCells, "one-td-per-cell-of-the-row")
	}
	vfAssert(len(genLog) == len(wantGen), "generator-called-once-per-emitted-row")
	if len(genLog) == len(wantGen) {
		for i := range genLog {
			vfAssert(genLog[i] == wantGen[i], "generator-row-numbers")
		}
	}
}

// VerifC06_nested: wrappers are independent documents also when they carry the same template name and
// one is rendered while the other's render is under way (from inside its row-class generator).
func VerifC06_nested() {
	a, b := New(), New()
	name := []string{"", "shared"}[vfChoice("name", 2)]
	a.TemplateName, b.TemplateName = name, name
	a.AddHeaders("a1", "a2")
	a.AddRowItems("x", vfString("t", 1, vfASCIInoNUL))
	a.AddRowItems("y")
	b.AddHeaders("b1")
	b.AddRowItems("other")
	b.SetRowClassGenerator(func(rowNum int, ctx interface{}) template.HTMLAttr { return template.HTMLAttr("bb") }, nil)
	if vfChoice("b-first", 2) == 1 {
		b.Render()
	}
	a.SetRowClassGenerator(func(rowNum int, ctx interface{}) template.HTMLAttr { return template.HTMLAttr("k") }, nil)
	refA, errA := a.Render()
	refB, errB := b.Render()
	vfAssert(vfAnd(errA == nil, errB == nil), "render-ok")
	inner := ""
	var innerErr error
	a.SetRowClassGenerator(func(rowNum int, ctx interface{}) template.HTMLAttr {
		if rowNum == 1 {
			inner, innerErr = b.Render()
		}
		return template.HTMLAttr("k")
	}, nil)
	outA, errA2 := a.Render()
	vfAssert(vfAnd(errA2 == nil, innerErr == nil), "render-ok")
	vfAssert(outA == refA, "nested-render-leaves-outer-document-alone")
	vfAssert(inner == refB, "nested-render-is-its-own-document")
	vfObserveStr("out", outA)
}

// VerifC06_retarget: the wrapper renders the table it holds now: after its Table was exchanged for
// another one (of the same or another size) the document is that table's, as a fresh wrapper gives it.
func VerifC06_retarget() {
	t1, t2 := tabular.New(), tabular.New()
	t1.AddHeaders("a1", "a2")
	t1.AddRowItems("x", vfString("t", 1, vfASCIInoNUL))
	t1.AddSeparator()
	t1.AddRowItems("y")
	t2.AddHeaders("b1")
	t2.AddRowItems("other-1")
	t2.AddRowItems("other-2", "wide")
	if vfChoice("same-size", 2) == 1 {
		t2.AddRowItems("other-3")
	}
	ht := Wrap(t1)
	gen := vfChoice("generator", 2) == 1
	var genLog []int
	if gen {
		ht.SetRowClassGenerator(func(rowNum int, ctx interface{}) template.HTMLAttr {
			genLog = append(genLog, rowNum)
			return template.HTMLAttr("k")
		}, nil)
	}
	_, err1 := ht.Render()
	ht.Table = t2
	genLog = nil
	out, err2 := ht.Render()
	ref := Wrap(t2)
	if gen {
		ref.SetRowClassGenerator(func(rowNum int, ctx interface{}) template.HTMLAttr { return template.HTMLAttr("k") }, nil)
	}
	want, err3 := ref.Render()
	vfAssert(vfAnd(err1 == nil, vfAnd(err2 == nil, err3 == nil)), "render-ok")
	vfAssert(out == want, "retargeted-wrapper-renders-its-current-table")
	if gen {
		vfAssert(len(genLog) == 1+t2.NRows(), "generator-called-once-per-emitted-row")
		for i := range genLog {
			vfAssert(genLog[i] == i, "generator-row-numbers")
		}
	}
	vfObserveStr("out", out)
}
